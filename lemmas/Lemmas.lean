/-
Supporting lemmas for the step "reference formula ⇒ property" (DESIGN §4). They are NOT the deciding step of any
check (that is the static comparison code ≡ reference); they mechanise the pencil arguments the references rest on.
Checked with plain `lean` (core only, no Mathlib):   lean lemmas/Lemmas.lean
-/

-- sums of integer lists
def lsum : List Int → Int
  | [] => 0
  | x :: xs => x + lsum xs

/-- pointwise box: lo_i ≤ x_i ≤ hi_i -/
inductive InBox : List Int → List Int → List Int → Prop
  | nil : InBox [] [] []
  | cons {x lo hi : Int} {xs los his : List Int} : lo ≤ x → x ≤ hi → InBox xs los his → InBox (x :: xs) (lo :: los) (hi :: his)

/-- C03/C06/C07/C08 (kernel K4): the sum of the children lies between the sums of the bounds -/
theorem sum_in_box {xs los his : List Int} (h : InBox xs los his) : lsum los ≤ lsum xs ∧ lsum xs ≤ lsum his := by
  induction h with
  | nil => simp [lsum]
  | cons h1 h2 _ ih => simp only [lsum]; omega

/-- interval soundness, sign +1: a claimed constant 1 / 0 is valid for every completion -/
theorem kernel_pos_sound {xs los his : List Int} (h : InBox xs los his) (v : Int) :
    (lsum los ≥ v → lsum xs ≥ v) ∧ (¬ (lsum his ≥ v) → ¬ (lsum xs ≥ v)) := by
  have := sum_in_box h; constructor <;> intro _ <;> omega

/-- interval soundness, sign −1: node bounds ([-Σhi ≥ v], [-Σlo ≥ v]) -/
theorem kernel_neg_sound {xs los his : List Int} (h : InBox xs los his) (v : Int) :
    (-(lsum his) ≥ v → -(lsum xs) ≥ v) ∧ (¬ (-(lsum los) ≥ v) → ¬ (-(lsum xs) ≥ v)) := by
  have := sum_in_box h; constructor <;> intro _ <;> omega

/-- C06: exact range of sign·Σ : (Σlo, Σhi) for sign +1 and (−Σhi, −Σlo) for sign −1 are attained bounds -/
theorem eqmm_neg {xs los his : List Int} (h : InBox xs los his) : -(lsum his) ≤ -(lsum xs) ∧ -(lsum xs) ≤ -(lsum los) := by
  have := sum_in_box h; omega

/-- C05: integer complement  ¬(e ≥ v) ⇔ −e ≥ 1 − v -/
theorem complement (e v : Int) : ¬ (e ≥ v) ↔ (-e ≥ 1 - v) := by omega

/-- 0/1 lists -/
def Bool01 (cs : List Int) : Prop := ∀ c ∈ cs, c = 0 ∨ c = 1

def negs (cs : List Int) : List Int := cs.map (fun c => 1 - c)

theorem sum_negs (cs : List Int) : lsum (negs cs) = (cs.length : Int) - lsum cs := by
  induction cs with
  | nil => simp [negs, lsum]
  | cons c cs ih =>
    simp only [negs, List.map, lsum, List.length_cons] at *
    rw [ih]; push_cast; omega

/-- C05 (compound push, sign +1): +Σ(1−c) ≥ (1−v)+n  is the complement of  +Σc ≥ v -/
theorem push_complement (cs : List Int) (v : Int) :
    (lsum (negs cs) ≥ (1 - v) + (cs.length : Int)) ↔ ¬ (lsum cs ≥ v) := by
  rw [sum_negs]; omega

/-- C08 (R5): substituting the constants:  s·(free + const) ≥ v  ⇔  s·free ≥ v − s·const,  s ∈ {−1, +1} -/
theorem reduce_subst (s free const v : Int) (hs : s = 1 ∨ s = -1) :
    (s * (free + const) ≥ v) ↔ (s * free ≥ v - s * const) := by
  rcases hs with h | h <;> subst h <;> omega

theorem sum_le_length {cs : List Int} (h : Bool01 cs) : 0 ≤ lsum cs ∧ lsum cs ≤ (cs.length : Int) := by
  induction cs with
  | nil => simp [lsum]
  | cons c cs ih =>
    have hc : c = 0 ∨ c = 1 := h c (List.mem_cons_self ..)
    have ih' := ih (fun d hd => h d (List.mem_cons_of_mem _ hd))
    simp only [lsum, List.length_cons]; push_cast
    rcases hc with hc | hc <;> subst hc <;> omega

/-- C04: All = Σ ≥ n is conjunction -/
theorem all_iff {cs : List Int} (h : Bool01 cs) : (lsum cs ≥ (cs.length : Int)) ↔ ∀ c ∈ cs, c = 1 := by
  induction cs with
  | nil => simp [lsum]
  | cons c cs ih =>
    have hc : c = 0 ∨ c = 1 := h c (List.mem_cons_self ..)
    have hrest : Bool01 cs := fun d hd => h d (List.mem_cons_of_mem _ hd)
    have b := sum_le_length hrest
    have ih' := ih hrest
    simp only [lsum, List.length_cons, List.mem_cons, forall_eq_or_imp]; push_cast
    rcases hc with hc | hc <;> subst hc
    · constructor
      · intro hge; omega
      · intro ⟨h0, _⟩; omega
    · constructor
      · intro hge; exact ⟨rfl, ih'.mp (by omega)⟩
      · intro ⟨_, hall⟩; have := ih'.mpr hall; omega

/-- C04: Any = Σ ≥ 1 is disjunction -/
theorem any_iff {cs : List Int} (h : Bool01 cs) : (lsum cs ≥ 1) ↔ ∃ c ∈ cs, c = 1 := by
  induction cs with
  | nil => simp [lsum]
  | cons c cs ih =>
    have hc : c = 0 ∨ c = 1 := h c (List.mem_cons_self ..)
    have hrest : Bool01 cs := fun d hd => h d (List.mem_cons_of_mem _ hd)
    have b := sum_le_length hrest
    have ih' := ih hrest
    simp only [lsum, List.mem_cons, exists_eq_or_imp]
    rcases hc with hc | hc <;> subst hc
    · constructor
      · intro hge; right; exact ih'.mp (by omega)
      · intro hor
        rcases hor with h0 | hex
        · omega
        · have := ih'.mpr hex; omega
    · constructor
      · intro _; left; rfl
      · intro _; omega

/-- C04: AtMost k = −Σ ≥ −k -/
theorem atmost_iff (cs : List Int) (k : Int) : (-(lsum cs) ≥ -k) ↔ lsum cs ≤ k := by omega

/-- C11 (redundant row) / C12 (row bounds): each term a·x over a box is bounded below by its minimum term -/
theorem term_min (a x lo hi : Int) (h1 : lo ≤ x) (h2 : x ≤ hi) :
    (if a > 0 then lo * a else if a < 0 then hi * a else 0) ≤ a * x := by
  by_cases hp : a > 0
  · simp [hp]; rw [Int.mul_comm]; exact Int.mul_le_mul_of_nonneg_left h1 (by omega)
  · by_cases hn : a < 0
    · simp [hp, hn]; rw [Int.mul_comm]; exact Int.mul_le_mul_of_nonpos_left (by omega) h2
    · have : a = 0 := by omega
      subst this; simp

/-- C12 (implied lower bound, coefficient a > 0):  a·x ≥ t  ⇒  x ≥ ⌊t / a⌋  (the candidate `floor(t/a)` never cuts off x) -/
theorem implied_lower (a x t : Int) (ha : 0 < a) (h : a * x ≥ t) : t / a ≤ x := by
  apply Int.ediv_le_of_le_mul ha
  rw [Int.mul_comm] at h; exact h

/-- C12 (implied upper bound, coefficient −a' < 0):  −a'·x ≥ t  ⇔  a'·x ≤ −t  ⇒  x ≤ ⌊(−t) / a'⌋ = ⌊t / (−a')⌋ -/
theorem implied_upper (a' x t : Int) (ha : 0 < a') (h : -(a' * x) ≥ t) : x ≤ (-t) / a' := by
  apply Int.le_ediv_of_mul_le ha
  rw [Int.mul_comm]; omega
