#!/usr/bin/env python3
"""Confirm a seeded change in a scratch worktree and store it under /verif/seeded/<id>/.
usage: tools/confirm_seed.py <seed-dir> <A|B> <property> [--needs "text"]
 - applies <seed-dir>/<X>.diff to a fresh worktree of /repo HEAD under /tmp/confirm/<id>
 - runs the baseline test command there (must keep the 125 stable tests passing)
 - runs demo_<X>.py with the change (must exit != 0) and without (must exit 0)
 - runs the /verif quick checks against /repo with the patch applied (then undoes it)
"""
import json, os, shutil, subprocess, sys, xml.etree.ElementTree as ET
sd, X, prop = sys.argv[1], sys.argv[2], sys.argv[3]
sid = f"{prop}-{X}" if len(sys.argv) < 5 or sys.argv[4].startswith("--") else sys.argv[4]
needs = ""
if "--needs" in sys.argv:
    needs = sys.argv[sys.argv.index("--needs") + 1]
wt = f"/tmp/confirm/{sid}"
os.makedirs("/tmp/confirm", exist_ok=True)
subprocess.run(["git", "-C", "/repo", "worktree", "remove", "--force", wt], capture_output=True)
subprocess.check_call(["git", "-C", "/repo", "worktree", "add", "-q", "--detach", wt, "HEAD"])
out = {"id": sid, "property": prop}
try:
    diff = os.path.join(sd, f"{X}.diff")
    demo = os.path.join(sd, f"demo_{X}.py")
    shutil.copy(demo, os.path.join(wt, "demo.py"))
    r0 = subprocess.run(["/venv/bin/python", "demo.py"], cwd=wt, capture_output=True, text=True, timeout=600)
    out["demo_without_change_exit"] = r0.returncode
    subprocess.check_call(["git", "-C", wt, "apply", diff])
    r1 = subprocess.run(["/venv/bin/python", "demo.py"], cwd=wt, capture_output=True, text=True, timeout=600)
    out["demo_with_change_exit"] = r1.returncode
    out["demo_with_change_tail"] = (r1.stdout + r1.stderr)[-400:]
    junit = os.path.join(wt, "junit.xml")
    rt = subprocess.run(["/venv/bin/python", "-m", "pytest", "-q", "-p", "no:cacheprovider", "--timeout=900",
                         "--continue-on-collection-errors", f"--junitxml={junit}"], cwd=wt, capture_output=True, text=True, timeout=1800)
    base = json.load(open("/root/.vp/BASELINE.json"))
    stable = set(base["stable_pass"])
    passed = set()
    for tc in ET.parse(junit).getroot().iter("testcase"):
        name = f"{tc.get('classname')}::{tc.get('name')}"
        if not any(ch.tag in ("failure", "error", "skipped") for ch in tc):
            passed.add(name)
    missing = sorted(stable - passed)
    out["suite_summary"] = rt.stdout.strip().splitlines()[-1] if rt.stdout.strip() else ""
    # hypothesis-based tests are flaky under load (also on the unchanged tree): re-run the missing ones alone, twice
    still = []
    for name in missing:
        mod, test = name.split("::")
        node = mod.replace(".", "/") + ".py::" + test if mod.startswith("tests.") else None
        okc = 0
        if node:
            for _ in range(2):
                shutil.rmtree(os.path.join(wt, ".hypothesis"), ignore_errors=True)
                rr = subprocess.run(["/venv/bin/python", "-m", "pytest", "-q", "-p", "no:cacheprovider", node], cwd=wt, capture_output=True, text=True, timeout=900)
                okc += rr.returncode == 0
        if okc < 2:
            still.append(name)
    out["flaky_rerun_passed"] = sorted(set(missing) - set(still))
    missing = still
    out["stable_tests_broken"] = missing
finally:
    subprocess.run(["git", "-C", "/repo", "worktree", "remove", "--force", wt], capture_output=True)
# our checks against /repo itself
r = subprocess.run(["python3", "/verif/tools/run_seed.py", os.path.join(sd, f"{X}.diff")], capture_output=True, text=True, cwd="/verif")
out["checks"] = r.stdout.strip().splitlines()[0] if r.stdout.strip() else r.stderr[-300:]
out["check_lines"] = r.stdout.strip().splitlines()[1:8]
ok = out.get("demo_without_change_exit") == 0 and out.get("demo_with_change_exit") not in (0, None) and not out.get("stable_tests_broken")
out["confirmed"] = ok
if ok:
    dst = f"/verif/seeded/{sid}"
    os.makedirs(dst, exist_ok=True)
    shutil.copy(os.path.join(sd, f"{X}.diff"), os.path.join(dst, "patch.diff"))
    shutil.copy(os.path.join(sd, f"demo_{X}.py"), os.path.join(dst, "demo.py"))
    notes = ""
    if os.path.exists(os.path.join(sd, "NOTES.md")):
        notes = open(os.path.join(sd, "NOTES.md")).read()
    meta = {"id": sid, "breaks_property": prop, "needs_to_manifest": needs or "see notes", "author": "independent sub-agent (given only the property text and a scratch worktree)",
            "ran": ["git apply patch.diff in a scratch worktree of /repo HEAD", "baseline pytest command: " + out["suite_summary"],
                    f"demo.py exit {out['demo_with_change_exit']} with the change, {out['demo_without_change_exit']} without",
                    "tools/run_seed.py patch.diff : " + out["checks"]],
            "stable_tests_broken": out["stable_tests_broken"], "detected_by": out["checks"], "notes": notes[:6000]}
    json.dump(meta, open(os.path.join(dst, "meta.json"), "w"), indent=1)
print(json.dumps(out, indent=1))
