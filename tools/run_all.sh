#!/bin/bash
# usage: tools/run_all.sh [quick|thorough]   - runs every registered check, prints one line each
tier=${1:-quick}
exec 9>/tmp/run_seed.lock; flock 9     # never while a seed patch is applied to /repo
cd /verif
rc=0
for p in $(python3 -c "import json;print(' '.join(c['property_id'] for c in json.load(open('MANIFEST.json'))['checks']))"); do
  out=$(/venv/bin/python sa/check.py $p --tier $tier 2>&1); e=$?
  echo "$p exit=$e $(echo "$out" | grep "^$p:" | tail -1)"
  if [ $e -ne 0 ]; then rc=1; echo "$out" | grep -v KNOWN | head -5 | cut -c1-300; fi
done
exit $rc
