#!/usr/bin/env python3
"""Run every stored seed (/verif/seeded/*/patch.diff) against all quick checks; print the detection matrix and update meta.json."""
import glob, json, os, subprocess, sys
rows = []
for d in sorted(x for x in glob.glob("/verif/seeded/*/") if os.path.exists(x + "meta.json")):
    sid = os.path.basename(d.rstrip("/"))
    r = subprocess.run(["python3", "/verif/tools/run_seed.py", d + "patch.diff"], capture_output=True, text=True, cwd="/verif")
    first = r.stdout.strip().splitlines()[0] if r.stdout.strip() else r.stderr.strip()[-200:]
    meta = json.load(open(d + "meta.json"))
    meta["detected_by"] = first
    target = meta["breaks_property"]
    fired = first.split("|")[0].replace("FIRED:", "").split()
    meta["target_property_fired"] = target in fired
    json.dump(meta, open(d + "meta.json", "w"), indent=1)
    rows.append((sid, target, first, target in fired))
    print(f"{sid:8s} target={target} {'OK ' if target in fired else 'MISS'} {first}")
json.dump([{"seed": s, "property": t, "result": f, "target_fired": ok} for s, t, f, ok in rows], open("/verif/seeded/MATRIX.json", "w"), indent=1)
print(sum(ok for *_, ok in rows), "/", len(rows), "seeds detected by the check of the property they target")
