#!/usr/bin/env python3
"""Re-run the demonstration of every stored seed against /repo HEAD in a scratch worktree: exit 0 without the change, non-zero
with it. Seeds whose demonstration no longer fails (a later repair of /repo made the change harmless) are listed as stale.
usage: tools/recheck_demos.py [seed-id ...]"""
import glob, json, os, subprocess, sys
from concurrent.futures import ThreadPoolExecutor
ids = sys.argv[1:] or sorted(os.path.basename(d.rstrip("/")) for d in glob.glob("/verif/seeded/C*-*/"))
def one(sid):
    wt = f"/tmp/recheck/{sid}"
    subprocess.run(["git", "-C", "/repo", "worktree", "remove", "--force", wt], capture_output=True)
    os.makedirs("/tmp/recheck", exist_ok=True)
    subprocess.check_call(["git", "-C", "/repo", "worktree", "add", "-q", "--detach", wt, "HEAD"])
    try:
        demo = f"/verif/seeded/{sid}/demo.py"
        subprocess.check_call(["cp", demo, wt + "/demo.py"])
        r0 = subprocess.run(["/venv/bin/python", "-W", "ignore", "demo.py"], cwd=wt, capture_output=True, text=True, timeout=900)
        ap = subprocess.run(["git", "-C", wt, "apply", f"/verif/seeded/{sid}/patch.diff"], capture_output=True, text=True)
        if ap.returncode != 0:
            return sid, r0.returncode, None, "patch does not apply"
        r1 = subprocess.run(["/venv/bin/python", "-W", "ignore", "demo.py"], cwd=wt, capture_output=True, text=True, timeout=900)
        return sid, r0.returncode, r1.returncode, (r1.stdout + r1.stderr)[-200:]
    finally:
        subprocess.run(["git", "-C", "/repo", "worktree", "remove", "--force", wt], capture_output=True)
with ThreadPoolExecutor(8) as ex:
    res = list(ex.map(one, ids))
stale = []
for sid, a, b, tail in res:
    ok = (a == 0 and b not in (0, None))
    if not ok:
        stale.append(sid)
        print(f"{sid}: without={a} with={b}  {tail[-160:]!r}")
print(f"{len(res) - len(stale)} / {len(res)} demonstrations still fail with the change and pass without it; stale: {stale}")
