#!/usr/bin/env python3
"""Apply a patch to /repo, run the quick checks of all (or given) properties, undo the patch. Prints which checks fire.
usage: tools/run_seed.py <patch.diff> [C03 C07 ...]"""
import json, subprocess, sys, os, signal
signal.signal(signal.SIGPIPE, signal.SIG_IGN)
patch = os.path.abspath(sys.argv[1])
props = sys.argv[2:] or [c["property_id"] for c in json.load(open("/verif/MANIFEST.json"))["checks"]]
import fcntl
_lock = open("/tmp/run_seed.lock", "w")
fcntl.flock(_lock, fcntl.LOCK_EX)          # one patch on /repo at a time
st = subprocess.run(["git", "-C", "/repo", "status", "--porcelain"], capture_output=True, text=True).stdout.strip()
if st:
    sys.exit("refusing: /repo is dirty:\n" + st)
subprocess.run(["git", "-C", "/repo", "apply", patch], check=True, stdout=subprocess.DEVNULL, stderr=subprocess.DEVNULL)
res = {}
try:
    from concurrent.futures import ThreadPoolExecutor

    def one(p):
        r = subprocess.run(["/venv/bin/python", "sa/check.py", p, "--tier", "quick"], cwd="/verif", capture_output=True, text=True)
        lines = [l for l in r.stdout.splitlines() if l.startswith(p + " ") or l.startswith("INCONCLUSIVE") or l.startswith("ANALYSIS-ERROR")]
        return p, (r.returncode, lines)
    with ThreadPoolExecutor(max_workers=12) as ex:
        for p, v in ex.map(one, props):
            res[p] = v
finally:
    subprocess.run(["git", "-C", "/repo", "checkout", "-q", "--", "."], check=True, stdout=subprocess.DEVNULL, stderr=subprocess.DEVNULL)
fired = [p for p, (rc, _) in res.items() if rc == 1]
err = [p for p, (rc, _) in res.items() if rc == 2]
print("FIRED:", " ".join(fired) or "-", "| ANALYSIS-ERROR:", " ".join(err) or "-")
for p, (rc, lines) in res.items():
    if rc:
        for l in lines[:6]:
            print("   ", l[:330])
