#!/usr/bin/env python3
"""Run every stored behaviour-preserving refactoring (/verif/seeded/refactorings/*.diff) against all quick checks.
Expected: silent. Writes seeded/refactorings/MATRIX.json."""
import glob, json, os, subprocess
rows = []
for f in sorted(glob.glob("/verif/seeded/refactorings/*.diff")):
    r = subprocess.run(["python3", "/verif/tools/run_seed.py", f], capture_output=True, text=True, cwd="/verif")
    first = r.stdout.strip().splitlines()[0] if r.stdout.strip() else r.stderr.strip()[-200:]
    silent = first.strip() == "FIRED: - | ANALYSIS-ERROR: -"
    rows.append({"refactoring": os.path.basename(f), "result": first, "silent": silent})
    print(f"{os.path.basename(f):12s} {'silent' if silent else 'ALARM '} {first}")
json.dump(rows, open("/verif/seeded/refactorings/MATRIX.json", "w"), indent=1)
print(sum(r['silent'] for r in rows), "/", len(rows), "refactorings leave every check silent")
