#!/usr/bin/env python3
"""Confirm a behaviour-preserving change (negative control) in a scratch worktree and store it under /verif/seeded/refactorings/.
usage: tools/confirm_refactoring.py <agent-dir> <group> <k>      e.g. /tmp/seed/M2 M2 3
 - fresh worktree of /repo HEAD under /tmp/confirm/<group>-R<k>, <agent-dir>/R<k>.diff applied
 - the agent's check_R<k>.py must exit 0 there; the 125 stable tests of the baseline must still pass (flaky ones re-run alone)
 - stores <group>-R<k>.diff, <group>-check_R<k>.py (and <group>-NOTES.md) when confirmed
"""
import json, os, shutil, subprocess, sys, xml.etree.ElementTree as ET
sd, grp, k = sys.argv[1], sys.argv[2], sys.argv[3]
sid = f"{grp}-R{k}"
wt = f"/tmp/confirm/{sid}"
os.makedirs("/tmp/confirm", exist_ok=True)
subprocess.run(["git", "-C", "/repo", "worktree", "remove", "--force", wt], capture_output=True)
subprocess.check_call(["git", "-C", "/repo", "worktree", "add", "-q", "--detach", wt, "HEAD"])
out = {"id": sid}
ok = False
try:
    diff = os.path.join(sd, f"R{k}.diff")
    chk = os.path.join(sd, f"check_R{k}.py")
    subprocess.check_call(["git", "-C", wt, "apply", diff])
    # a script that pins the agent's own worktree path is pointed at this worktree instead
    open(os.path.join(wt, f"check_R{k}.py"), "w").write(open(chk).read().replace(sd.rstrip("/"), wt))
    shutil.copy(diff, os.path.join(wt, f"R{k}.diff"))
    for extra in os.listdir(sd):            # helper modules the agent's check scripts share
        if extra.endswith(".py") and not extra.startswith(("check_", "demo_")) and os.path.isfile(os.path.join(sd, extra)):
            open(os.path.join(wt, extra), "w").write(open(os.path.join(sd, extra)).read().replace(sd.rstrip("/"), wt))
    rc = subprocess.run(["/venv/bin/python", "-W", "ignore", f"check_R{k}.py"], cwd=wt, capture_output=True, text=True, timeout=1800)
    out["check_exit"] = rc.returncode
    out["check_tail"] = (rc.stdout + rc.stderr)[-300:]
    junit = os.path.join(wt, "junit.xml")
    shutil.rmtree(os.path.join(wt, ".hypothesis"), ignore_errors=True)
    rt = subprocess.run(["/venv/bin/python", "-m", "pytest", "-q", "-p", "no:cacheprovider", "--timeout=900",
                         "--continue-on-collection-errors", f"--junitxml={junit}"], cwd=wt, capture_output=True, text=True, timeout=1800)
    stable = set(json.load(open("/root/.vp/BASELINE.json"))["stable_pass"])
    passed = set()
    for tc in ET.parse(junit).getroot().iter("testcase"):
        if not any(ch.tag in ("failure", "error", "skipped") for ch in tc):
            passed.add(f"{tc.get('classname')}::{tc.get('name')}")
    missing = sorted(stable - passed)
    out["suite_summary"] = rt.stdout.strip().splitlines()[-1] if rt.stdout.strip() else ""
    still = []
    for name in missing:
        mod, test = name.split("::")
        node = mod.replace(".", "/") + ".py::" + test if mod.startswith("tests.") else None
        okc = 0
        if node:
            for _ in range(2):
                shutil.rmtree(os.path.join(wt, ".hypothesis"), ignore_errors=True)
                rr = subprocess.run(["/venv/bin/python", "-m", "pytest", "-q", "-p", "no:cacheprovider", node], cwd=wt, capture_output=True, text=True, timeout=900)
                okc += rr.returncode == 0
        if okc < 2:
            still.append(name)
    out["stable_tests_broken"] = still
    ok = rc.returncode == 0 and not still
finally:
    subprocess.run(["git", "-C", "/repo", "worktree", "remove", "--force", wt], capture_output=True)
out["confirmed"] = ok
if ok:
    dst = "/verif/seeded/refactorings"
    shutil.copy(os.path.join(sd, f"R{k}.diff"), f"{dst}/{grp}-R{k}.diff")
    shutil.copy(os.path.join(sd, f"check_R{k}.py"), f"{dst}/{grp}-check_R{k}.py")
    for extra in os.listdir(sd):
        if extra.endswith(".py") and not extra.startswith(("check_", "demo_")) and os.path.isfile(os.path.join(sd, extra)):
            shutil.copy(os.path.join(sd, extra), f"{dst}/{grp}-{extra}")
    if os.path.exists(os.path.join(sd, "NOTES.md")):
        shutil.copy(os.path.join(sd, "NOTES.md"), f"{dst}/{grp}-NOTES.md")
print(json.dumps(out, indent=1))
sys.exit(0 if ok else 1)
