#!/usr/bin/env python3
"""Rewrite the obligation-count column of DESIGN §0.3 and the whole table of §0.7 from /verif/evidence/*.json
(run after `tools/run_all.sh thorough` on the unchanged tree)."""
import json, glob, re
ev = {}
for f in sorted(glob.glob("/verif/evidence/C*.json")):
    e = json.load(open(f)); ev[e["property_id"]] = e
p = "/verif/DESIGN.md"; s = open(p).read()
a, b = s.index("<!-- TABLE03 -->"), s.index("<!-- /TABLE03 -->")
tab = s[a:b]
def fix(m):
    pid = m.group(1)
    c = ev[pid]["coverage"]
    n = len([x for x in c["samples"] if x["rule"] != "selftest"]) if len(c["samples"]) < 400 else c["obligations"]
    return f"| {pid} | {n} |"
tab = re.sub(r"\| (C\d\d) \| \d+ \|", fix, tab)
s = s[:a] + tab + s[b:]
a, b = s.index("<!-- TABLE07 -->"), s.index("<!-- /TABLE07 -->")
rows = ["<!-- TABLE07 -->", "| id | mutants killed (by VIOLATION) / run | rewrites silent / run | surroundings variants reported / run | stored seeds fired | stored controls green | thorough wall s |", "|----|----|----|----|----|----|----|"]
for pid, e in ev.items():
    c = e["coverage"]; st = c.get("selftest", {}); co = c.get("corpus", {})
    seeds = co.get("seeds", [])
    fired = sum(1 for x in seeds if "=> violation" in x) if isinstance(seeds, list) else 0
    rows.append(f"| {pid} | {st.get('mutants_killed')} ({st.get('killed_by_violation')}) / {(st.get('mutants_run') or 0) - (st.get('mutants_invalid') or 0)} | "
                f"{st.get('rewrites_silent')}/{st.get('rewrites_run')} | {st.get('surroundings_red')}/{st.get('surroundings_run')} | {fired}/{len(seeds) if isinstance(seeds, list) else 0} | "
                f"{co.get('refactorings_green')}/{co.get('refactorings')} | {e['wall_s']:.1f} |")
s = s[:a] + "\n".join(rows) + "\n" + s[b:]
open(p, "w").write(s)
print("tables updated")
