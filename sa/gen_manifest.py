#!/venv/bin/python
"""Writes /verif/MANIFEST.json from the table below (kept next to the checks so that it cannot drift)."""
import json
import os
import sys

ROOT = os.path.dirname(os.path.dirname(os.path.abspath(__file__)))
sys.path.insert(0, ROOT)

BASELINE = ("cd /repo && /venv/bin/python -m pytest -ra -q -p no:cacheprovider --timeout=900 "
            "--continue-on-collection-errors")

# property -> (technique, level text, level note, design ref)
CLAIMED = {}

NOT_APPLICABLE = {
    "C02": "Both directions quantify over the integer points of an inequality system that is generated inside puan_rspy, "
           "a compiled Rust extension with no source in the repository; no sound static argument over /repo reaches it. "
           "The Python-side mechanisms the statement names (negate() pushing inwards, Imply/XNor/Not built from negate, the "
           "statement builder) are decided under C05, C04 and C01.",
}


def claim(pid, technique, text, note, ref):
    CLAIMED[pid] = (technique, text, note, ref)


claim("C06", "contract equivalence by canonical form (AST -> lambda-term IR, sign case split, polynomial/Σ normal forms)",
      "For all inputs: the interval kernel of assume() and _equation_mm / equation_bounds / is_tautology / is_contradiction "
      "are proven equal, per sign case, to the closed forms of interval arithmetic whose soundness is a one-line lemma. "
      "Static and universally quantified; it decides code ≡ formula, the lemma formula ⇒ property is argued in DESIGN.md.",
      "Trusted: the lowering/canonicaliser (sa/terms.py), the reference terms (sa/ref), Bounds invariant lower<=upper "
      "(checked on Bounds.__init__), acyclic models (C10).", "§4/C06")

EQ = "contract equivalence by canonical form (AST -> λ-term IR with maz/functools/operator lowering, sign case split, polynomial / Σ normal forms)"
BASE_NOTE = ("Trusted: lowering + canonicaliser (sa/terms.py) and the hand-written reference terms (sa/ref); models acyclic (C10). "
             "Decides code ≡ formula for all inputs; formula ⇒ property is the short argument in DESIGN.md. Properties stated over "
             "validated models (C01, C03, C05, C08, C16) also carry the functions that decide what validation accepts as obligations "
             "(their premise). ")

claim("C03", EQ,
      "For all inputs (structural induction): assume/evaluate/evaluate_propositions and variable.evaluate are proven equal to the "
      "arithmetic truth function transcribed from the property (K1-K7), per sign case.", BASE_NOTE, "§4/C03")
claim("C04", EQ + "; affine-relation analysis of negate()",
      "Every connective constructor, the cicJE rule tables and the JSON dispatcher are proven equal to their kernel forms; "
      "Imply/XNor/Not additionally inherit the complement obligations of negate() (its mixed-member defect was repaired, fix 1533229).",
      BASE_NOTE + "Boolean leaves; kernel semantics from C03.", "§4/C04")
claim("C05", "affine-relation analysis of negate() per (return path x sign) + typestate 'solver-safe form' + id rule",
      "For every return path of negate() and both signs: sign'·Σchildren' - value' ≡ -(sign·Σchildren - value) - 1 as linear forms "
      "(children negated by induction), sign' = +1 or no compound child (over boolean leaves), id kept iff explicit; paths the linear argument cannot follow are decided by enumeration of abstract states (<= 2 atoms with declared bounds (0,1)/(0,2)/(-1,2), <= 2 compounds, value in [-3,4]). The mixed-member defect was repaired (fix 1533229).",
      BASE_NOTE + "Constructor projections justified by the AtLeast.__init__ contract (an obligation).", "§4/C05")
claim("C07", EQ + "; dataflow rule on the children handed to the result constructor",
      "Hypotheses H1-H4 of the compositionality proof are decided statically: kernel, own-id override, leaf rule, and 'no child "
      "loses its definition' (the defect repaired by fix 2a86685).", BASE_NOTE + "Assumed values within bounds.", "§4/C07")
claim("C08", EQ + "; sibling agreement of the bounds kernels of reduce and assume",
      "reduce() is proven equal to constant substitution into sign·Σ >= value (R1-R5), per sign case, and its kernel agrees with "
      "assume's.", BASE_NOTE, "§4/C08")
claim("C09", "interprocedural effect / alias analysis (may-write sets on pre-existing objects) + memoisation key-adequacy rule",
      "Every public query has an empty may-write set on self/parameters/reachable objects/module state across the whole call graph "
      "of the package, except listed known findings; no process-wide memoisation with a key coarser than what the body reads.",
      "Trusted: alias abstraction and the external in-place/pure table of sa/effects.py; user solvers pure; name-based dispatch "
      "over-approximates dynamic dispatch. Positive/negative controls run on every invocation.", "§3.4 E1, §4/C09")
claim("C18", EQ + "; effect analysis of add()",
      "add() ≡ guard-over-all-children-raises, else StingyConfigurator(*(children+[p]), id=self.id); add() writes nothing "
      "pre-existing.", BASE_NOTE, "§4/C18")

ARR_NOTE = BASE_NOTE + "numpy array idioms at the anchors; no overflow. "
claim("C01", EQ + "; sibling agreement of the two TheoryPy builders; who-may-construct rule",
      "Python side of the bridge only: statement provenance per flattened node (index, bounds, child indices, bias=-value, sign) per "
      "sign case, builder agreement, column re-attachment and the [b|A] split are proven for all inputs. Whether the compiled encoder's "
      "inequalities hold iff the model is true is NOT claimed.",
      BASE_NOTE + "puan_rspy is compiled: its statement semantics are trusted as documented.", "§4/C01")
claim("C10", "equivalence-adequacy analysis of every de-duplication key (E7) + " + EQ,
      "errors() ≡ four labelled checks (cycle wiring, two definition-uniqueness checks, duplicate edges) with complete dependency "
      "relation; every key fed to set()/Counter and the __eq__ of objects de-duplicated inside flatten() must separate different "
      "definitions; keys must be injective AND cover the identifying fields; the definition checks range over every occurrence. The lossy de-duplication defect was repaired (fix 720688a).",
      BASE_NOTE + "Key classification table (tuple of fields injective; hash / string concatenation not).", "§4/C10")
claim("C11", EQ, "Each reduction kernel (A_min, reducable_rows, reducable_columns_approx, reduce_columns, reduce_rows, the fixpoint loop, "
      "reduce) is proven equal to its formula for all inputs; formula ⇒ solution-set preservation by three one-line lemmas.",
      ARR_NOTE + "Loop termination not decided.", "§4/C11")
claim("C12", EQ, "column_bounds, A_max, A_min, row_bounds, n_row_combinations and tighten_column_bounds are proven equal to "
      "implied-bound arithmetic for all inputs (residual, floor candidate, sign masks, neutral elements, max/min, write-back only if tighter).",
      ARR_NOTE, "§4/C12")
claim("C13", EQ + "; literal-dispatch exhaustiveness; batch self-recursion rule",
      "Partial claim: dispatch, batch recursion, closed forms of first/last/min/max and the Python side of 'shadow' (keep-last, "
      "gather/scatter by inverse permutations, sign/zero preservation). Dominance of shadow weights and density of prio/rank are NOT claimed.",
      ARR_NOTE + "pr.py_optimized_bit_allocation_64 is compiled.", "§4/C13")
claim("C14", EQ + "; cross-site constant / producer-consumer agreement rules",
      "Partial claim: the conventions necessary for the lexicographic order (row order vs keep-last, user default 0, default fill -1, "
      "tag -2 strictly below, complement tagged, the tag read over every occurrence of an id rather than over the de-duplicated "
      "flatten() (rule E7.tag-dedupe; the defect it describes was repaired, fix 2f2bbca), ASPACE, asserted polyhedron, both select() "
      "bridges). The numeric ranking itself is NOT claimed.",
      BASE_NOTE, "§4/C14")
claim("C15", EQ + "; index-space (FULL vs A-columns) pairing rules; must-pass-through (eager solver call inside try)",
      "Both bridges: solver gets the asserted FULL polyhedron, objectives live on A-columns with default 0, solutions are zipped with "
      "A.variables of the same polyhedron, virtual-variable filters agree, None → {}, only_leafs, solver exceptions → InfeasibleError. "
      "Optimality is NOT claimed.", BASE_NOTE + "Solver honours its contract.", "§4/C15")
claim("C16", "serialisation writer/reader agreement analysis (keys, id guard, omission defaults, registry exhaustiveness, state coverage) + " + EQ,
      "For the 13 classes reachable from the two registries: writer and reader agree on keys, ids are emitted only when explicit, "
      "omission predicates equal reader/constructor defaults, every emitted type resolves in both registries, every state component "
      "is written or re-derived; stored constructor arguments that may be str ids have no methods invoked on them (E3.raw-state); writers do not select by position in the id-sorted member list (E3.sorted-position). One known finding (compound's own bounds); two defects repaired (fixes 9e65150, 40b4536).", BASE_NOTE, "§4/C16")
claim("C17", "serialisation positional/coverage agreement + " + EQ,
      "dumps(self); no custom pickling hooks; list[i] ↔ __new__ parameter i; list covers every attached attribute; finalize carries "
      "variables/index.", BASE_NOTE + "pickle/gzip/base64 inverse-ness is a library fact.", "§4/C17")
claim("C19", "axis/quantifier typing (E5) of the 2-D cores + self-recursion / singleton rules + " + EQ,
      "For the three classifiers × three ndim branches: quantifier prefix (∃row / ∃point / ∀row over A·x<b or >=b), own-function "
      "recursion for stacks, singleton wrap and index-0 rule.", ARR_NOTE, "§4/C19")
claim("C20", EQ, "construct, variable_indices (case split on dtype: a partition), from_list/to_list, A/b/to_linalg are proven equal to the "
      "statement for all inputs.", ARR_NOTE, "§4/C20")


def build():
    from sa import props
    checks = []
    for pid in props.IDS:
        if pid not in CLAIMED:
            continue
        technique, text, note, ref = CLAIMED[pid]
        checks.append({
            "property_id": pid,
            "quick_cmd": f"/venv/bin/python sa/check.py {pid} --tier quick",
            "thorough_cmd": f"/venv/bin/python sa/check.py {pid} --tier thorough",
            "evidence_file": f"/verif/evidence/{pid}.json",
            "replay_cmd_template": f"/venv/bin/python sa/check.py {pid} --replay {{path}}",
            "engine": "sa",
            "level_claimed": {"category": "other", "text": text, "design_ref": ref},
            "level_note": note,
            "technique": "static analysis: " + technique,
        })
    na = [{"property_id": p, "reason": r} for p, r in sorted(NOT_APPLICABLE.items())]
    for pid in props.IDS:
        if pid not in CLAIMED:
            na.append({"property_id": pid, "reason": "static check not built yet in this snapshot (see DESIGN.md §9 build order)"})
    return {
        "version": 1,
        "setup_cmd": "true",
        "hooks": {
            "guard": "OURSTUDIO_SE_PUAN_PYTHON_VERIF",
            "enable": "none: the checks are purely static (ast over /repo's working tree); nothing in /repo is instrumented or executed",
            "baseline_off_cmd": BASELINE,
            "source_commits": [],
            "add_only": True,
        },
        "engines": [{
            "name": "sa", "path": "sa/",
            "serves_properties": sorted(CLAIMED),
            "kind_free_text": "repository-specific static analyser over Python ast: λ-term IR with combinator lowering and "
                              "canonical forms (contract equivalence), effect/purity analysis, serialisation writer/reader "
                              "chains, index-space and axis typing, typestate of negate(), key-injectivity of de-duplications",
        }],
        "checks": checks,
        "not_applicable": sorted(na, key=lambda x: x["property_id"]),
        "notes": "All checks parse /repo/puan/** on every run and never import or execute it. exit 0 = all obligations "
                 "discharged (listed known findings printed as KNOWN-FINDING), exit 1 = VIOLATION line(s), exit 2 = "
                 "ANALYSIS-ERROR (anchor vanished / construct outside the analysable fragment). fix: commits in /repo are "
                 "listed in KNOWN_FINDINGS.txt as fixed: lines.",
    }


if __name__ == "__main__":
    m = build()
    with open(os.path.join(ROOT, "MANIFEST.json"), "w") as f:
        json.dump(m, f, indent=1)
    print("MANIFEST.json written:", len(m["checks"]), "checks,", len(m["not_applicable"]), "not applicable")
