#!/venv/bin/python
"""Writes /verif/MANIFEST.json from the table below (kept next to the checks so that it cannot drift)."""
import json
import os
import sys

ROOT = os.path.dirname(os.path.dirname(os.path.abspath(__file__)))
sys.path.insert(0, ROOT)

BASELINE = ("cd /repo && /venv/bin/python -m pytest -ra -q -p no:cacheprovider --timeout=900 "
            "--continue-on-collection-errors")

# property -> (technique, level text, level note, design ref)
CLAIMED = {}

NOT_APPLICABLE = {
    "C02": "Both directions quantify over the integer points of an inequality system that is generated inside puan_rspy, "
           "a compiled Rust extension with no source in the repository; no sound static argument over /repo reaches it. "
           "The Python-side mechanisms the statement names (negate() pushing inwards, Imply/XNor/Not built from negate, the "
           "statement builder) are decided under C05, C04 and C01.",
}


def claim(pid, technique, text, note, ref):
    CLAIMED[pid] = (technique, text, note, ref)


claim("C06", "contract equivalence by canonical form (AST -> lambda-term IR, sign case split, polynomial/Σ normal forms)",
      "For all inputs: the interval kernel of assume() and _equation_mm / equation_bounds / is_tautology / is_contradiction "
      "are proven equal, per sign case, to the closed forms of interval arithmetic whose soundness is a one-line lemma. "
      "Static and universally quantified; it decides code ≡ formula, the lemma formula ⇒ property is argued in DESIGN.md.",
      "Trusted: the lowering/canonicaliser (sa/terms.py), the reference terms (sa/ref), Bounds invariant lower<=upper "
      "(checked on Bounds.__init__), acyclic models (C10).", "§4/C06")

EQ = "contract equivalence by canonical form (AST -> λ-term IR with maz/functools/operator lowering, sign case split, polynomial / Σ normal forms)"
BASE_NOTE = ("Trusted: lowering + canonicaliser (sa/terms.py) and the hand-written reference terms (sa/ref); models acyclic (C10). "
             "Decides code ≡ formula for all inputs; formula ⇒ property is the short argument in DESIGN.md. ")

claim("C03", EQ,
      "For all inputs (structural induction): assume/evaluate/evaluate_propositions and variable.evaluate are proven equal to the "
      "arithmetic truth function transcribed from the property (K1-K7), per sign case.", BASE_NOTE, "§4/C03")
claim("C04", EQ + "; affine-relation analysis of negate()",
      "Every connective constructor, the cicJE rule tables and the JSON dispatcher are proven equal to their kernel forms; "
      "Imply/XNor/Not additionally inherit the complement obligations of negate() (one known finding: mixed branch).",
      BASE_NOTE + "Boolean leaves; kernel semantics from C03.", "§4/C04")
claim("C05", "affine-relation analysis of negate() per (return path x sign) + typestate 'solver-safe form' + id rule",
      "For every return path of negate() and both signs: sign'·Σchildren' - value' ≡ -(sign·Σchildren - value) - 1 as linear forms "
      "(children negated by induction), sign' = +1 or no compound child, id kept iff explicit. One known finding (mixed branch).",
      BASE_NOTE + "Constructor projections justified by the AtLeast.__init__ contract (an obligation).", "§4/C05")
claim("C07", EQ + "; dataflow rule on the children handed to the result constructor",
      "Hypotheses H1-H4 of the compositionality proof are decided statically: kernel, own-id override, leaf rule, and 'no child "
      "loses its definition' (the defect repaired by fix 2a86685).", BASE_NOTE + "Assumed values within bounds.", "§4/C07")
claim("C08", EQ + "; sibling agreement of the bounds kernels of reduce and assume",
      "reduce() is proven equal to constant substitution into sign·Σ >= value (R1-R5), per sign case, and its kernel agrees with "
      "assume's.", BASE_NOTE, "§4/C08")
claim("C09", "interprocedural effect / alias analysis (may-write sets on pre-existing objects) + memoisation key-adequacy rule",
      "Every public query has an empty may-write set on self/parameters/reachable objects/module state across the whole call graph "
      "of the package, except listed known findings; no process-wide memoisation with a key coarser than what the body reads.",
      "Trusted: alias abstraction and the external in-place/pure table of sa/effects.py; user solvers pure; name-based dispatch "
      "over-approximates dynamic dispatch. Positive/negative controls run on every invocation.", "§3.4 E1, §4/C09")
claim("C18", EQ + "; effect analysis of add()",
      "add() ≡ guard-over-all-children-raises, else StingyConfigurator(*(children+[p]), id=self.id); add() writes nothing "
      "pre-existing.", BASE_NOTE, "§4/C18")


def build():
    from sa import props
    checks = []
    for pid in props.IDS:
        if pid not in CLAIMED:
            continue
        technique, text, note, ref = CLAIMED[pid]
        checks.append({
            "property_id": pid,
            "quick_cmd": f"/venv/bin/python sa/check.py {pid} --tier quick",
            "thorough_cmd": f"/venv/bin/python sa/check.py {pid} --tier thorough",
            "evidence_file": f"/verif/evidence/{pid}.json",
            "replay_cmd_template": f"/venv/bin/python sa/check.py {pid} --replay {{path}}",
            "engine": "sa",
            "level_claimed": {"category": "other", "text": text, "design_ref": ref},
            "level_note": note,
            "technique": "static analysis: " + technique,
        })
    na = [{"property_id": p, "reason": r} for p, r in sorted(NOT_APPLICABLE.items())]
    for pid in props.IDS:
        if pid not in CLAIMED:
            na.append({"property_id": pid, "reason": "static check not built yet in this snapshot (see DESIGN.md §9 build order)"})
    return {
        "version": 1,
        "setup_cmd": "true",
        "hooks": {
            "guard": "OURSTUDIO_SE_PUAN_PYTHON_VERIF",
            "enable": "none: the checks are purely static (ast over /repo's working tree); nothing in /repo is instrumented or executed",
            "baseline_off_cmd": BASELINE,
            "source_commits": [],
            "add_only": True,
        },
        "engines": [{
            "name": "sa", "path": "sa/",
            "serves_properties": sorted(CLAIMED),
            "kind_free_text": "repository-specific static analyser over Python ast: λ-term IR with combinator lowering and "
                              "canonical forms (contract equivalence), effect/purity analysis, serialisation writer/reader "
                              "chains, index-space and axis typing, typestate of negate(), key-injectivity of de-duplications",
        }],
        "checks": checks,
        "not_applicable": sorted(na, key=lambda x: x["property_id"]),
        "notes": "All checks parse /repo/puan/** on every run and never import or execute it. exit 0 = all obligations "
                 "discharged (listed known findings printed as KNOWN-FINDING), exit 1 = VIOLATION line(s), exit 2 = "
                 "ANALYSIS-ERROR (anchor vanished / construct outside the analysable fragment). fix: commits in /repo are "
                 "listed in KNOWN_FINDINGS.txt as fixed: lines.",
    }


if __name__ == "__main__":
    m = build()
    with open(os.path.join(ROOT, "MANIFEST.json"), "w") as f:
        json.dump(m, f, indent=1)
    print("MANIFEST.json written:", len(m["checks"]), "checks,", len(m["not_applicable"]), "not applicable")
