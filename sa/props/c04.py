"""C04 - connectives have their documented truth functions."""
from . import c05

EXPLANATION = (
    "Every connective constructor is proven equal (canonical form) to its kernel form: AtMost(k,ps) ≡ AtLeast(-k,ps,sign=-1); "
    "All(*ps) ≡ AtLeast(|set(ps)|,ps); Any ≡ AtLeast(1,ps); Xor ≡ All(AtLeast(1,ps),AtMost(1,ps)); XNor ≡ Any(negate(AtLeast(1,ps)), "
    "negate(AtMost(1,ps))); Imply(c,q) ≡ Any(negate(All(c) if atom else c), q); Not(p) ≡ negate(All(p) if atom else p); "
    "AtLeast.__init__ (default sign + iff value>0, strings -> boolean variables); Imply.from_cicJE rule/relation tables; "
    "plog.from_json dispatch by class name. The arithmetic facts (sum>=n over n booleans is conjunction, -sum>=-k is at-most-k) "
    "are stated in DESIGN §4/C04. Imply/XNor/Not rest on negate(): its affine-complement obligations (C05) are obligations here too."
)
TRUSTED = c05.TRUSTED
ASSUMPTIONS = ["boolean leaves", "acyclic models (C10)", "evaluation kernel is the arithmetic truth function (C03)"]
NOT_DECIDED = []
PROTECTED = ["puan.logic.plog.AtLeast.negate"]
MIN_OBLIGATIONS = 15


def obligations(ctx):
    obs = ctx.contract_obligations("C04")
    # Imply / XNor / Not are defined through negate(): inherit its complement obligations
    obs += [o for o in c05.obligations(ctx) if o.rule in ("E2.affine",)]
    return obs
