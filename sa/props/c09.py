"""C09 - queries are pure and results are independent of call history (engine E1)."""
import ast

from ..frontend import Program, AnalysisError
from ..effects import Effects, memo_sites, CTOR_NAMES, _params
from ..obligation import Ob

EXPLANATION = (
    "Interprocedural effect/alias analysis over the whole package (sa/effects.py): for every public query of the model / "
    "configurator classes (every non-constructor method of Bounds, variable, AtLeast and subclasses, cc.Any, cc.Xor, "
    "StingyConfigurator, the module functions of puan.logic.plog, and everything they reach in puan.ndarray) the may-write "
    "set on pre-existing objects (self, parameters, objects reachable from them, module / class state, mutable defaults) "
    "must be empty; constructors may only initialise the object under construction. Process-wide memoisation "
    "(lru_cache / cache / cached_property) is reported unless its key equality is at least as fine as what the memoised "
    "body reads. A root construct is a store / in-place call site; it is reported once with the entry points it is "
    "reachable from."
)
TRUSTED = ["alias/effect abstraction of sa/effects.py (views, fresh containers, name-based dynamic dispatch, "
           "one-level field sensitivity)", "table of external callees: in-place vs pure (unknown externals are assumed pure and listed)"]
ASSUMPTIONS = ["user supplied solver callables are pure", "constructors copy the containers they are given "
               "(AtLeast.__init__ builds a fresh sorted list - obligation E0 under C04)",
               "no monkey patching of the analysed classes at run time"]
NOT_DECIDED = ["purity of user-supplied solver callables", "effects inside the compiled puan_rspy extension"]
MIN_OBLIGATIONS = 60

ENTRY_MODULES = ("puan", "puan.logic.plog", "puan.modules.configurator")
EXTRA_ENTRIES = ("puan.ndarray.ge_polyhedron_config.select", "puan.ndarray.ge_polyhedron_config._vectors_from_prios",
                 "puan.ndarray.ge_polyhedron_config.to_b64", "puan.ndarray.ge_polyhedron_config.from_b64")
# the store-site census confirmed by hand on the pinned tree (reported next to the measured one)
CONFIRMED_TODAY = {"entry_points": 95, "memo_sites": 0}

CONTROL_BAD = {
    "ctl/__init__.py": '''
import functools
class Node:
    def __init__(self, kids):
        self.kids = list(kids)
        self.tag = None
    def __eq__(self, other):
        return self.tag == other.tag
    def __hash__(self):
        return 0
    def query(self, d):
        if 1 in d:
            self.tag = d[1]
        return [k.query(d) for k in self.kids]
    def grow(self, k):
        self.kids.append(k)
        return Node(self.kids)
    @functools.lru_cache
    def size(self):
        return len(self.kids)
''',
}
CONTROL_GOOD = {
    "ctl/__init__.py": '''
class Node:
    def __init__(self, kids):
        self.kids = list(kids)
        self.tag = None
    def query(self, d):
        tag = d[1] if 1 in d else self.tag
        out = [k.query(d) for k in self.kids]
        out.append(tag)
        return out
    def grow(self, k):
        return Node(self.kids + [k])
    def size(self):
        return len(self.kids)
''',
}


def entry_points(program):
    out = []
    for q, fi in program.functions.items():
        if fi.name in CTOR_NAMES:
            continue
        if fi.module.name in ENTRY_MODULES or q in EXTRA_ENTRIES:
            out.append(q)
    return sorted(out)


def analyse(program, entries):
    """-> (effects engine, {root key: (Effect, [entry points], witness chain)}, memo findings)"""
    eng = Effects(program)
    roots = {}
    for q in entries:
        s = eng.summ[q]
        idxs = sorted(s.mut | s.mut_elem) + (['glob'] if s.glob else [])
        for idx in idxs:
            for chain, e in eng.witnesses(q, idx):
                fi = program.functions[e.qualname]
                # constructors may initialise the object under construction (parameter 0)
                if fi.name in CTOR_NAMES:
                    p0 = _params(fi)[0] if _params(fi) else None
                    if {r for r, _ in e.roots} <= {p0}:
                        continue
                k = e.key()
                if k not in roots:
                    roots[k] = (e, set(), chain)
                roots[k][1].add(q)
        for g in s.glob:
            if g.startswith("mutable default"):
                k = f"mutable-default:{q}:{g}"
                roots.setdefault(k, (None, set(), [q]))[1].add(q)
    return eng, roots


def memo_findings(program):
    out = []
    for site in memo_sites(program):
        fi, deco, line = site[0], site[1], site[2]
        if fi is None:
            out.append((f"E1.memo:{site[3].relpath}:{deco}", f"{site[3].relpath}:{line}",
                        f"process-wide memoisation through {deco}; key adequacy cannot be established"))
            continue
        params = _params(fi)
        cls = fi.cls
        if deco.endswith("cached_property"):
            out.append((f"E1.memo:{fi.qualname}:cached_property", fi.loc(),
                        "cached_property stores the result in the instance: later queries (and pickle.dumps(self)) depend on history"))
            continue
        if cls is not None and params and params[0] == "self":
            eq = program.lookup_method(cls, "__eq__")
            if eq is None:
                # identity equality: key is exact for the instance; but the cache outlives mutations of the instance
                out.append((f"E1.memo:{fi.qualname}:identity", fi.loc(),
                            f"{deco} keeps results per instance across calls; any later change of the instance is ignored"))
                continue
            assigned = set()
            for c in program.mro(cls):
                for m in c.methods.values():
                    if m.name in CTOR_NAMES:
                        for n in ast.walk(m.node):
                            if isinstance(n, ast.Attribute) and isinstance(n.ctx, ast.Store) and isinstance(n.value, ast.Name) and n.value.id == "self":
                                assigned.add(n.attr)
            compared = {n.attr for n in ast.walk(eq.node) if isinstance(n, ast.Attribute) and isinstance(n.value, ast.Name) and n.value.id == "self"}
            missing = sorted(assigned - compared)
            if missing:
                out.append((f"E1.memo:{fi.qualname}:coarse-key", fi.loc(),
                            f"{deco} keys the process-wide cache by the instance, whose __eq__ ({eq.qualname}) ignores "
                            f"{missing}: two different objects share one cache line"))
            continue
        if params:
            out.append((f"E1.memo:{fi.qualname}:args", fi.loc(),
                        f"{deco} on a function with parameters {params}: model objects compare by a coarse __eq__, "
                        f"distinct arguments may share a cache line"))
    return out


def _controls():
    bad = Program(repo="<memory>", pkg="ctl", overrides=CONTROL_BAD)
    ents = [q for q in bad.functions if not q.endswith("__init__") and not q.endswith("__eq__") and not q.endswith("__hash__")]
    _, roots = analyse(bad, ents)
    keys = set(roots)
    want = {"attr-store:ctl.Node.query:self.tag", "mutator-call:ctl.Node.grow:self.kids.append()"}
    if not want <= keys:
        raise AnalysisError(f"E1 positive control did not fire: expected {want}, got {keys}")
    if not any("coarse-key" in k for k, _, _ in memo_findings(bad)):
        raise AnalysisError("E1 memo positive control did not fire")
    good = Program(repo="<memory>", pkg="ctl", overrides=CONTROL_GOOD)
    _, roots = analyse(good, [q for q in good.functions if not q.endswith("__init__")])
    if roots or memo_findings(good):
        raise AnalysisError(f"E1 negative control raised an alarm: {list(roots)}")
    return {"positive_control": "fired", "negative_control": "silent"}


def obligations(ctx):
    ctl = _controls()
    program = ctx.program
    entries = entry_points(program)
    if not entries:
        raise AnalysisError("no entry points found for C09")
    eng, roots = analyse(program, entries)
    ctx.touched |= eng.reachable(entries)
    obs = []
    bad_entries = set()
    for k, (e, ents, chain) in sorted(roots.items()):
        bad_entries |= ents
        if e is None:
            obs.append(Ob(f"E1:{k}", "E1.mutable-default", ctx.loc(chain[0]), "violation",
                          f"a mutable default argument is written: {k}", key=f"E1.{k}"))
            continue
        ents_s = sorted(ents)
        names = sorted({x.split('.')[-1] for x in ents_s})
        obs.append(Ob(f"E1:{k}", "E1." + e.kind, f"{e.file}:{e.line} {e.qualname}", "violation",
                      f"{e.kind} `{e.target}` writes a pre-existing object (roots {sorted(e.roots)}); reachable from "
                      f"{len(ents_s)} entry points, e.g. {', '.join(names[:8])}; witness: {' -> '.join(chain)}",
                      key=f"E1.{e.kind}:{e.qualname}:{e.target}"))
    for key, where, text in memo_findings(program):
        obs.append(Ob(key, "E1.memo", where, "violation", text, key=key))
    for q in entries:
        if q not in bad_entries:
            obs.append(Ob(f"E1.pure:{q}", "E1.pure", ctx.loc(q), "ok", "empty may-write set on pre-existing objects"))
        else:
            obs.append(Ob(f"E1.pure:{q}", "E1.pure", ctx.loc(q), "ok",
                          "reaches a reported root construct (reported once, at the construct)"))
    # census
    ctx.extra = {"census": {"entry_points": len(entries), "functions_reachable": len(eng.reachable(entries)),
                            "direct_store_sites_in_package": sum(len(v) for v in eng.direct.values()),
                            "unresolved_stores": len(eng.unresolved), "fixpoint_iterations": eng.iterations,
                            "externals_assumed_pure": sorted(eng.externals), "confirmed_by_hand": CONFIRMED_TODAY,
                            "memo_sites": len(memo_sites(program))}, "controls": ctl}
    return obs


def thorough(ctx, obs):
    return dict(getattr(ctx, "extra", {}))
