"""C14 - configurator objectives realise choices over defaults over stinginess (conventions necessary for the order)."""
from .. import terms as T
from ..obligation import Ob
from ._common import TRUSTED_E2

EXPLANATION = (
    "Decides the conventions that are necessary for the lexicographic order (each survives the test-suite when broken): "
    "_vectors_from_prios stacks [default_prio_vector, user row] in that order per request and compresses with method='shadow', "
    "axis=0, while 'shadow' keeps the LAST non-zero per column (reduce2d(method='last')) - producer and consumer agree that later "
    "rows win; the user row is prio.get(id, 0) per A-column (default 0); the default fill of default_prios is a negative constant "
    "and the non-default branch tagged in cc.Any.__init__ is strictly below it (constants compared: -1 and -1-1); the tagged "
    "object is the complement of the default; both rows live in ASPACE of the same polyhedron; ge_polyhedron is built from "
    "to_ge_polyhedron(True). All by contract equivalence plus cross-site agreement rules. That the compressed single vector "
    "orders all feasible configurations is NOT decided (numeric, compiled)."
)
TRUSTED = TRUSTED_E2
ASSUMPTIONS = ["boolean items"]
NOT_DECIDED = ["lexicographic ranking of all feasible configurations by the compressed weight vector (numeric; "
               "pr.py_optimized_bit_allocation_64 is compiled)"]
MIN_OBLIGATIONS = 14

DP = "puan.modules.configurator.StingyConfigurator.default_prios"
ANY = "puan.modules.configurator.Any.__init__"
VFP = "puan.ndarray.ge_polyhedron_config._vectors_from_prios"
ND = "puan.ndarray.integer_ndarray.ndint_compress"
OCC = "puan.modules.configurator._occurrences"
NEW = "puan.ndarray.ge_polyhedron_config.__new__"


def _getattr_defaults(t, attr):
    """constants d in getattr(x, attr, d) (lowered: call getattr with 3 args)"""
    out = []
    for x in T.walk(t):
        if x[0] == 'call' and x[1] == T.G('getattr') and len(x[2]) == 3 and x[2][1] == T.C(attr):
            out.append(x[2][2])
    return out


def _tag_source_rules(tdp, where):
    """E7 (adequacy of a de-duplication key, as in C10): the `prio` tag is object state that the key flatten() de-duplicates
    by (AtLeast.__eq__ / __hash__: id, sign, value, children) does not cover, and identical sub-propositions share a generated
    id. A reader of the tag must therefore range over every occurrence of every node, never over flatten()."""
    reads = [x for x in T.walk(tdp) if x[0] == 'call' and x[1] == T.G('getattr') and len(x[2]) >= 2 and x[2][1] == T.C('prio')]
    over_flatten = [x for x in T.walk(tdp) if x[0] == 'call' and x[1][0] == 'attr' and x[1][2] == 'flatten']
    over_all = [x for x in T.walk(tdp) if x[0] == 'call' and x[1][0] in ('glob', 'var') and x[1][1].split('.')[-1] == OCC.split('.')[-1]]
    if reads and over_flatten:
        return [Ob("E7.tag-dedupe", "E7.dedupe-key", where, "violation",
                   "default_prios reads the `prio` tag from the elements of flatten(): flatten() keeps ONE object per id (set of "
                   "objects equal by id) and may keep the untagged twin of a tagged default branch - the default is then lost. "
                   "Failing input: StingyConfigurator(cc.Xor('a','b','f', default='f'), pg.Imply('d', pg.Any('a','b'))).select({}) "
                   "picks a instead of the default f", key="E7:tag-dedupe:flatten")]
    if reads and over_all:
        return [Ob("E7.tag-dedupe", "E7.dedupe-key", where, "ok",
                   "the prio tag is read over every occurrence of every node (no de-duplication between the tag and its reader)")]
    return [Ob("E7.tag-dedupe", "E7.dedupe-key", where, "inconclusive", "source of the nodes whose `prio` is read not recognised")]


def _vfp_rules(tv, where):
    obs = []
    rows = [x for x in T.walk(tv) if x[0] == 'list' and len(x[1]) == 2 and x[1][0] == ('attr', T.V('self'), 'default_prio_vector')]
    okr = bool(rows)
    obs.append(Ob("E8.row-order", "E8.producer-consumer", where, "ok" if okr else "violation",
                  "each request is stacked as [default_prio_vector, user row] (user row last)" if okr else
                  "the per-request stack is not [default_prio_vector, user row]", key="E8:row-order"))
    comp = [x for x in T.walk(tv) if x[0] == 'call' and x[1][0] == 'attr' and x[1][2] == 'ndint_compress']
    okc = bool(comp) and all(dict(c[3]).get('method') == T.C('shadow') and dict(c[3]).get('axis') == T.C(0) for c in comp)
    obs.append(Ob("E8.compress-call", "E8.producer-consumer", where, "ok" if okc else "violation",
                  "compressed with method='shadow', axis=0" if okc else f"compress call is {[T.show(c)[-80:] for c in comp]}", key="E8:compress-call"))
    user = [x for x in T.walk(tv) if x[0] == 'call' and x[1][0] == 'attr' and x[1][2] == 'get' and len(x[2]) == 2]
    oku = bool(user) and all(u[2][1] == T.C(0) for u in user)
    obs.append(Ob("E2.user-default", "E2.constant", where, "ok" if oku else "violation",
                  "unnamed columns get user priority 0" if oku else f"user row default is {[T.show(u[2][1]) for u in user]}", key="E2:user-default"))
    return obs


def rules(ctx):
    P = ctx.program
    obs = []
    tdp = T.canonical(T.FuncLower(P, P.func(DP)).term())
    tany = T.norm(T.FuncLower(P, P.func(ANY)).term())
    d1 = _getattr_defaults(tdp, 'prio')
    d2 = _getattr_defaults(tany, 'prio')
    fill = d1[0] if d1 and d1[0][0] == 'const' else None
    where = ctx.loc(DP)
    if fill is None:
        obs.append(Ob("E8.default-fill", "E8.constants", where, "inconclusive", "default fill getattr(p,'prio',c) not found in default_prios"))
    else:
        ok = isinstance(fill[1], int) and fill[1] < 0
        obs.append(Ob("E8.default-fill", "E8.constants", where, "ok" if ok else "violation",
                      f"untagged nodes get prio {fill[1]} (negative: selecting anything costs)" if ok else
                      f"default fill {fill[1]} is not negative: stinginess is lost", key="E8:default-fill"))
    obs += ctx.settle_roles("C14", DP, _tag_source_rules(tdp, ctx.loc(DP)), _tag_source_rules(T.canonical(ctx.ref_term(DP)), ctx.loc(DP)))
    # tag in cc.Any: inner.prio := getattr(inner,'prio',d) - 1  -> strictly below the fill
    tags = []
    for x in T.walk(tany):
        if x[0] == 'upd' and x[2] == 'prio':
            tags.append(x[3])
    where = ctx.loc(ANY)
    if not tags or fill is None:
        obs.append(Ob("E8.default-tag", "E8.constants", where, "inconclusive" if fill is not None else "inconclusive",
                      "no `inner.prio = …` tag found in cc.Any.__init__"))
    for tg in tags:
        # evaluate with prio absent: replace getattr(_, 'prio', d) by d
        val = T.canonical(T.replace(tg, lambda y: y[2][2] if y[0] == 'call' and y[1] == T.G('getattr') and len(y[2]) == 3 and y[2][1] == T.C('prio') else None))
        ok = val[0] == 'const' and fill is not None and val[1] < fill[1]
        obs.append(Ob("E8.default-tag", "E8.constants", where, "ok" if ok else "violation",
                      f"non-default branch is tagged {T.show(val)} < default fill {fill[1] if fill else '?'}" if ok else
                      f"tag of the non-default branch evaluates to {T.show(val)}, not strictly below the default fill {fill[1] if fill else '?'}",
                      key="E8:default-tag"))
    # the tagged object is the complement of the default, the kept items equal the default
    comp = [x for x in T.walk(tany) if x[0] == 'filter' and x[1][0] == 'lam']
    # (covered by the contract; recorded as agreement evidence)
    # producer/consumer: user row last, 'shadow' keeps last (implied by the contract of _vectors_from_prios: evaluated on the
    # code and on the reference, settled by equivalence where the code's shape is not recognised)
    code = _vfp_rules(T.canonical(T.FuncLower(P, P.func(VFP)).term()), ctx.loc(VFP))
    ref = _vfp_rules(T.canonical(ctx.ref_term(VFP)), ctx.loc(VFP))
    obs += ctx.settle_roles("C14", VFP, code, ref)
    # consumer: in the 'shadow' branch reduce2d(method='last')
    import ast
    fi = P.func(ND)
    ok_last = None
    rfi = P.func("puan.ndarray.integer_ndarray.reduce2d")
    rparams = [p for p in rfi.params if p != 'self']

    def lit(node):
        t = T._literal_term(P, fi.module, node)
        return t[1] if t is not None and t[0] == 'const' else None

    def is_shadow_test(test):
        return isinstance(test, ast.Compare) and len(test.ops) == 1 and isinstance(test.ops[0], ast.Eq) and \
            any(isinstance(a, ast.Name) and a.id == 'method' and lit(b) == 'shadow'
                for a, b in ((test.left, test.comparators[0]), (test.comparators[0], test.left)))

    for n in ast.walk(fi.node):
        if isinstance(n, ast.If) and is_shadow_test(n.test):
            in_body = [c for st in n.body for c in ast.walk(st)
                       if isinstance(c, ast.Call) and isinstance(c.func, ast.Attribute) and c.func.attr == 'reduce2d']
            meths = []
            for c in in_body:
                kw = {k.arg: k.value for k in c.keywords}
                if 'method' not in kw and 'method' in rparams and len(c.args) > rparams.index('method'):
                    kw['method'] = c.args[rparams.index('method')]
                if 'method' in kw:
                    meths.append(lit(kw['method']))
                else:       # the callee's declared default
                    dflt = dict(zip(reversed([a.arg for a in rfi.node.args.args]), reversed(rfi.node.args.defaults)))
                    meths.append(lit(dflt['method']) if 'method' in dflt else None)
            if in_body and all(m is not None for m in meths):
                ok_last = all(m == 'last' for m in meths)
    obs += ctx.settle_roles("C14", ND, [Ob("E8.shadow-keeps-last", "E8.producer-consumer", ctx.loc(ND), "ok" if ok_last else ("violation" if ok_last is False else "inconclusive"),
                  "'shadow' keeps the last non-zero per column (later rows win) - agrees with the producer's row order" if ok_last else
                  "'shadow' branch does not reduce with reduce2d(method='last')", key="E8:shadow-keeps-last")], [])
    return obs


def obligations(ctx):
    return ctx.contract_obligations("C14") + rules(ctx)
