"""C19 - point classification agrees with A x >= b in every input shape (E5 axis/quantifier typing + E8 + contracts)."""
from .. import terms as T
from ..frontend import AnalysisError
from ..obligation import Ob
from ._common import TRUSTED_E2

EXPLANATION = (
    "For each of separable / ineq_separate_points / ineqs_satisfied and each ndim branch: (E5) the 2-D core is typed with named "
    "axes (A: row×var, points: point×var, b: row) through T / matmul / reshape / comparison / any / all; the result must have the "
    "quantifier prefix the property states: separable = per point ∃row (A·x < b); ineq_separate_points = per row ∃point (A·x < b); "
    "ineqs_satisfied = per point ∀row (A·x >= b). (E8) the ndim>2 branch maps *its own* function over axis 0; the ndim==1 branch "
    "wraps the vector into a singleton group and selects index 0 iff the result axis is the point axis. Whole-function contracts in "
    "addition."
)
TRUSTED = TRUSTED_E2 + ["axis algebra of numpy: matmul contracts the inner axis, X.T reverses axes, reshape(-1,1)/[:,None] adds a unit "
                        "axis that broadcasts, any/all(axis=k) quantifies axis k"]
ASSUMPTIONS = ["points have as many entries per point as the polyhedron has A-columns"]
NOT_DECIDED = []
MIN_OBLIGATIONS = 12

FUNCS = {
    "puan.ndarray.ge_polyhedron.separable": ("exists", "row", "lt", "point"),
    "puan.ndarray.ge_polyhedron.ineq_separate_points": ("exists", "point", "lt", "row"),
    "puan.ndarray.ge_polyhedron.ineqs_satisfied": ("forall", "row", "ge", "point"),
}


class Untyped(Exception):
    pass


def axes(t, pname):
    """-> (axes tuple, info dict) ; info may carry quantifier facts"""
    k = t[0]
    if k == 'var' and t[1] == pname:
        return ('point', 'var'), {}
    if k == 'attr':
        if t[2] == 'T':
            a, i = axes(t[1], pname)
            return tuple(reversed(a)), i
        if t[2] == 'A' and _is_poly(t[1]):
            return ('row', 'var'), {}
        if t[2] == 'b' and _is_poly(t[1]):
            return ('row',), {}
    if k == 'sub':
        o, i = t[1], t[2]
        # to_linalg()[0] / [1]
        if o[0] == 'call' and o[1][0] == 'attr' and o[1][2] == 'to_linalg' and _is_poly(o[1][1]) and i[0] == 'const':
            return (('row', 'var'), {}) if i[1] == 0 else (('row',), {})
        # X[:, None]
        if i[0] == 'tuple' and len(i[1]) == 2 and i[1][0] == ('slice', T.NONE, T.NONE, T.NONE) and i[1][1] == T.NONE:
            a, inf = axes(o, pname)
            if len(a) == 1:
                return (a[0], '1'), inf
        if i[0] == 'const' and isinstance(i[1], int):
            a, inf = axes(o, pname)
            inf = dict(inf)
            inf['picked'] = (a[0], i[1])
            return a[1:], inf
    if k == 'call':
        f = t[1]
        if f in (T.G('numpy.matmul'), T.G('numpy.dot')) and len(t[2]) == 2:
            a, _ = axes(t[2][0], pname)
            b, _ = axes(t[2][1], pname)
            if len(a) == 2 and len(b) == 2 and a[1] == b[0]:
                return (a[0], b[1]), {}
            raise Untyped(f"matmul of axes {a} and {b}")
        if f[0] == 'attr' and f[2] == 'reshape' and len(t[2]) == 2 and t[2][0] == T.C(-1) and t[2][1] == T.C(1):
            a, inf = axes(f[1], pname)
            if len(a) == 1:
                return (a[0], '1'), inf
        if f[0] == 'attr' and f[2] in ('any', 'all'):
            kw = dict(t[3])
            ax = kw.get('axis', t[2][0] if t[2] else None)
            a, inf = axes(f[1], pname)
            if ax is None or ax[0] != 'const' or not isinstance(ax[1], int) or 'pred' not in inf:
                raise Untyped("any/all without constant axis over a non-comparison")
            inf = dict(inf)
            inf['quant'] = 'exists' if f[2] == 'any' else 'forall'
            if not -len(a) <= ax[1] < len(a):
                inf['over'] = f'axis {ax[1]} (out of range)'
                return a, inf
            inf['over'] = a[ax[1]]
            rest = tuple(x for j, x in enumerate(a) if j != (ax[1] % len(a)))
            return rest, inf
        # transparent wrappers
        if f in (T.G('numpy.array'), T.G('puan.ndarray.boolean_ndarray'), T.G('puan.ndarray.integer_ndarray')):
            arg = t[2][0] if t[2] else dict(t[3]).get('input_array')
            if arg is not None:
                if arg[0] == 'list' and len(arg[1]) == 1:
                    a, inf = axes(arg[1][0], pname)
                    return ('group',) + a, inf
                return axes(arg, pname)
    if k == 'cmp' and t[1] in ('Lt', 'GtE', 'Gt', 'LtE'):
        a, _ = axes(t[2], pname)
        b, _ = axes(t[3], pname)
        if len(a) == 2 and len(b) == 2 and b[1] == '1' and a[0] == b[0]:
            lhs_is_Ax = True
        else:
            raise Untyped(f"comparison of axes {a} and {b}")
        pred = {'Lt': 'lt', 'GtE': 'ge', 'Gt': 'gt', 'LtE': 'le'}[t[1]]
        return a, {'pred': pred}
    raise Untyped(f"cannot type `{T.show(t)[:120]}`")


def _is_poly(t):
    """self, or ge_polyhedron(self) re-wrap"""
    if t == T.V('self'):
        return True
    if t[0] == 'call' and t[1] == T.G('puan.ndarray.ge_polyhedron'):
        kw = dict(t[3])
        return kw.get('input_array') == T.V('self')
    return False


def branches(term):
    """yield (condition, leaf) for the ndim dispatch"""
    def go(t, conds):
        if t[0] == 'if':
            yield from go(t[2], conds + [(t[1], True)])
            yield from go(t[3], conds + [(t[1], False)])
        else:
            yield conds, t
    yield from go(term, [])


def ndim_case(conds, pname):
    """classify path condition as '>2', '==2', '==1' or None"""
    nd = ('attr', T.V(pname), 'ndim')
    last_true = [c for c, pol in conds if pol]
    if not last_true:
        return None
    c = last_true[-1]
    if c == ('cmp', 'Gt', nd, T.C(2)):
        return '>2'
    if c == ('cmp', 'Eq', nd, T.C(2)):
        return '==2'
    if c == ('cmp', 'Eq', nd, T.C(1)):
        return '==1'
    return None


def obligations(ctx):
    out = ctx.contract_obligations("C19")
    for q in FUNCS:
        fi = ctx.program.func(q)
        code = _derive(ctx, q, T.norm(T.FuncLower(ctx.program, fi).term()))
        ref = _derive(ctx, q, ctx.ref_term(q))
        # the derivation is independent of the reference; where it cannot follow the code's shape but the code is proven
        # equivalent to the reference (on which the derivation succeeds), the result carries over
        out += ctx.settle_roles("C19", q, code, ref)
    return out


def _derive(ctx, q, term):
    obs = []
    if True:
        quant, over, pred, result_axis = FUNCS[q]
        fi = ctx.program.func(q)
        where = ctx.loc(q)
        pname = fi.params[1] if len(fi.params) > 1 else 'points'
        seen = set()
        for conds, leaf in branches(term):
            case = ndim_case(conds, pname)
            if case is None:
                if (leaf[0] == 'ret' and (leaf[1] == T.NONE or (leaf[1][0] == 'glob' and leaf[1][1].endswith('__unspecified__')))) \
                        or leaf[0] == 'raise':
                    continue            # fall-through for other ndim (outside the property): returns None / refuses
                obs.append(Ob(f"E5:{fi.name}:?", "E5.axis", where, "inconclusive", "unrecognised ndim dispatch"))
                continue
            seen.add(case)
            oid = f"{fi.name}[ndim{case}]"
            if leaf[0] != 'ret':
                obs.append(Ob(f"E5:{oid}", "E5.axis", where, "violation", f"branch does not return a value ({leaf[0]})", key=f"E5:{q}:{case}:noret"))
                continue
            v = leaf[1]
            if case == '==2':
                try:
                    a, inf = axes(v, pname)
                except Untyped as e:
                    obs.append(Ob(f"E5:{oid}", "E5.axis", where, "inconclusive", str(e)))
                    continue
                got = (inf.get('quant'), inf.get('over'), inf.get('pred'), a[0] if len(a) == 1 else a)
                want = (quant, over, pred, result_axis)
                sym = {'lt': 'A·x < b', 'ge': 'A·x >= b', 'gt': 'A·x > b', 'le': 'A·x <= b'}
                text = f"per {got[3]}: {got[0]} {got[1]}. {sym.get(got[2], got[2])}"
                if got == want:
                    obs.append(Ob(f"E5:{oid}", "E5.axis", where, "ok", text))
                else:
                    obs.append(Ob(f"E5:{oid}", "E5.axis", where, "violation",
                                  f"quantifier prefix is `{text}`, the property requires `per {result_axis}: {quant} {over}. {sym[pred]}`",
                                  key=f"E5:{q}:2d"))
            elif case == '>2':
                # maps its own function over the leading axis
                ok = False
                target = None
                for x in T.walk(v):
                    if x[0] == 'map' and x[2] == T.V(pname) and x[1][0] == 'lam':
                        body = x[1][2]
                        if body[0] == 'call' and body[1][0] == 'attr' and body[1][1] == T.V('self'):
                            target = body[1][2]
                        elif body[0] == 'call' and body[1][0] == 'glob':
                            target = body[1][1].split('.')[-1]
                        ok = target == fi.name and len(body[2]) + len(body[3]) >= 1
                if ok:
                    obs.append(Ob(f"E8:{oid}", "E8.self-recursion", where, "ok", f"maps {fi.name} over axis 0 of the stack"))
                else:
                    obs.append(Ob(f"E8:{oid}", "E8.self-recursion", where, "violation" if target else "inconclusive",
                                  f"ndim>2 branch maps `{target}` over the stack instead of `{fi.name}`" if target else
                                  "ndim>2 branch is not a map of a classifier over the points",
                                  key=f"E8:{q}:recursion"))
            elif case == '==1':
                # singleton wrap + [0] iff result axis is the point axis
                picked = None
                core = v
                eq1 = False
                if core[0] == 'cmp' and core[1] == 'Eq' and core[3] == T.C(1):
                    core, eq1 = core[2], True
                if core[0] == 'sub' and core[2] == T.C(0):
                    picked, core = 0, core[1]
                okcall = core[0] == 'call' and core[1] == T.G(q) and dict(core[3]).get(pname) == T.call(T.G('numpy.array'), [('list', (T.V(pname),))]) \
                    and dict(core[3]).get('self') == T.V('self')
                want_pick = (result_axis == 'point')
                if okcall and (picked == 0) == want_pick:
                    obs.append(Ob(f"E8:{oid}", "E8.singleton", where, "ok",
                                  "wraps the vector into a singleton group" + (" and selects its single result" if want_pick else " (result is per row, no selection)")))
                elif okcall:
                    obs.append(Ob(f"E8:{oid}", "E8.singleton", where, "violation",
                                  f"result axis is `{result_axis}`: index [0] must {'be' if want_pick else 'not be'} applied", key=f"E8:{q}:singleton"))
                else:
                    tgt = core[1][1] if core[0] == 'call' and core[1][0] == 'glob' else None
                    obs.append(Ob(f"E8:{oid}", "E8.singleton", where, "violation" if tgt and tgt != q else "inconclusive",
                                  f"ndim==1 branch calls `{tgt}` / unexpected wrapping: {T.show(v)[:200]}", key=f"E8:{q}:singleton"))
        if seen != {'>2', '==2', '==1'}:
            obs.append(Ob(f"E5:{fi.name}:dispatch", "E5.dispatch", where, "violation",
                          f"ndim dispatch covers {sorted(seen)}, expected >2, ==2 and ==1", key=f"E5:{q}:dispatch"))
    return obs
