"""C03 - evaluation computes the arithmetic truth function of every node."""
EXPLANATION = (
    "By canonical-form equivalence per sign case, for all inputs (structural induction over the acyclic model): K1 own-id "
    "override, K2 constant short-circuit, K3 every child assumed with the same dictionary, K4 result bounds = "
    "([sign·Σlo' >= value], [sign·Σhi' >= value]) with the flip (lo,hi)->(-hi,-lo) for sign -1, K5 result keeps value/sign/id, "
    "K6 evaluate_propositions = {x.id: out(x.bounds)} over flatten() of the assumed model and evaluate = its own-id entry, "
    "K7 variable.evaluate over the three documented value forms. The references are the statement of C03 transcribed."
)
TRUSTED = ["lowering/canonicaliser (sa/terms.py), axioms: as_tuple = (lower, upper), np.array(list of pairs).sum(axis=0) = pair of sums",
           "reference terms sa/ref/plog.py, sa/ref/core.py"]
ASSUMPTIONS = ["acyclic, validated models (C10)"]
NOT_DECIDED = []
MIN_OBLIGATIONS = 15


def obligations(ctx):
    return ctx.contract_obligations("C03")
