"""C10 - validation accepts exactly the well-defined models (E7 equivalence adequacy + structure of errors())."""
import ast
import hashlib

from .. import terms as T
from ..frontend import Program, AnalysisError
from ..obligation import Ob

EXPLANATION = (
    "(1) Structure: errors() ≡ compress(4 labels, [cycle check, variable-definition uniqueness, compound-definition uniqueness, "
    "duplicate-edge check]) by canonical form, with the de-duplication keys left as holes; _dependencies ≡ complete edge "
    "relation; flatten ≡ self + descendants. (2) E7 equivalence adequacy of every de-duplication on the path from the model to a "
    "uniqueness verdict: a key fed to set()/Counter must be an injective encoding of the identifying fields (tuples of fields are, "
    "hash(·) and concatenations / f-strings of >= 2 free strings are not), and objects placed in the set inside flatten() must "
    "have an __eq__ that compares the identifying fields (variable: id and bounds; compound: id, bounds, sign, value, children), "
    "otherwise two different definitions are merged before any check sees them - unless the definition checks range over every "
    "occurrence (_occurrences(), nothing merged; proven by the contract of errors()) with keys that are injective AND cover the "
    "identifying fields. A __hash__ only has to be a function of the object's fields (no identity)."
)
TRUSTED = ["lowering/canonicaliser (sa/terms.py)", "classification of key expressions (tuple of fields = injective; hash / string "
           "concatenation = not injective)"]
ASSUMPTIONS = []
NOT_DECIDED = ["run-time behaviour of hash()/set for the objects that are compared (collision frequency)"]
MIN_OBLIGATIONS = 10

ERRORS = "puan.logic.plog.AtLeast.errors"
IDENT = {"puan.variable": {"id", "bounds"},
         "puan.logic.plog.AtLeast": {"id", "bounds", "sign", "value", "propositions"}}


def classify_key(k):
    """-> (verdict, text) for a key expression over bound variables"""
    k0 = k
    if k[0] == 'call' and k[1] == T.G('hash') and len(k[2]) == 1:
        return "violation", f"hash(·) is not injective (and Bounds.__hash__ is the symmetric sum hash(lower)+hash(upper)): `{T.show(k0)}`"
    if k[0] in ('fstr', 'strcat'):
        free = [p for p in k[1] if p[0] != 'const']
        if len(free) >= 2:
            return "violation", f"string built from {len(free)} free parts is not an injective encoding of the pair: `{T.show(k0)}`"
        return "ok", f"string with a single free part: `{T.show(k0)}`"
    if k[0] == 'tuple':
        bad = [x for x in k[1] if classify_key(x)[0] != 'ok']
        if bad:
            return classify_key(bad[0])
        return "ok", f"tuple of fields (injective): `{T.show(k0)}`"
    if k[0] == 'attr' or k[0] == 'bv':
        return "ok", f"field projection: `{T.show(k0)}`"
    if k[0] == 'call' and k[1] in (T.G('tuple'), T.G('list')) and len(k[2]) == 1 and not k[3]:
        return classify_key(k[2][0])
    if k[0] == 'map' and k[1][0] == 'lam' and k[1][1] == 1 and classify_key(k[1][2])[0] == 'ok' and classify_key(k[2])[0] == 'ok':
        return "ok", f"sequence of field projections over a field (injective): `{T.show(k0)}`"
    if k[0] == 'call' and k[1][0] == 'attr' and k[1][2] in ('as_tuple',):
        return "ok", f"field tuple: `{T.show(k0)}`"
    if k[0] == 'call' and k[1] in (T.G('str'), T.G('repr')):
        return "inconclusive", f"textual encoding `{T.show(k0)}`"
    return "inconclusive", f"unrecognised key expression `{T.show(k0)}`"


def eq_fields(program, cls_q):
    """attributes of self compared by __eq__ of the class (transitively through properties id/bounds)"""
    ci = program.cls(cls_q)
    eq = program.lookup_method(ci, "__eq__")
    if eq is None:
        return None, None
    fields = set()
    for n in ast.walk(eq.node):
        if isinstance(n, ast.Attribute) and isinstance(n.value, ast.Name) and n.value.id == "self":
            fields.add(n.attr)
    # dataclass-generated __eq__ would compare all fields - but an explicit __eq__ is what counts
    return eq, fields


def key_fields(k):
    """identifying fields of the bound object a key expression reads (x.id -> id, x.bounds.as_tuple() / (x.bounds.lower, ..) ->
    bounds, tuple(map(.., x.propositions)) -> propositions, x.variable -> id and bounds)"""
    out = set()
    for x in T.walk(k):
        if x[0] == 'attr' and x[1][0] == 'bv':
            out.add(x[2])
    if 'variable' in out:
        out |= {'id', 'bounds'}
    return out


CONTROL_KEYS = [("hash(x)", "violation"), ("(x.id, x.bounds.lower, x.bounds.upper)", "ok"), ('f"{x.id}-{y.id}"', "violation"),
                ("(x.id, y.id)", "ok")]


def _controls(program):
    m = program.modules["puan"]
    from ..terms import Lower, Scope
    for src, want in CONTROL_KEYS:
        lw = Lower(Scope(program, m), {"x", "y"})
        t = T.canonical(lw.e(ast.parse(src, mode="eval").body))
        got = classify_key(t)[0]
        if got != want:
            raise AnalysisError(f"E7 control `{src}`: expected {want}, got {got}")


def obligations(ctx):
    program = ctx.program
    _controls(program)
    obs = ctx.contract_obligations("C10")
    K = ctx.contracts
    r = K.check(ERRORS)
    binds = dict(K.last_binds)
    where = ctx.loc(ERRORS)
    names = {"key2": "check#2 variable definitions", "key3": "check#3 compound definitions", "key4": "check#4 parent/child edges"}
    for hole in ("key2", "key3", "key4"):
        vals = binds.get(hole, [])
        if not vals:
            obs.append(Ob(f"E7.key:{hole}", "E7.key-injective", where, "inconclusive",
                          f"de-duplication key of {names[hole]} not found (errors() no longer has the expected structure)"))
            continue
        for v in vals:
            st, text = classify_key(v)
            need = {"key2": IDENT["puan.variable"], "key3": IDENT["puan.logic.plog.AtLeast"]}.get(hole)
            if st == "ok" and need is not None:
                missing = sorted(need - key_fields(v))
                if missing:
                    st, text = "violation", f"the key `{T.show(v)}` is injective on what it reads but ignores {missing}: two definitions " \
                                            f"of one id that differ only there are counted as one"
            dig = hashlib.sha256(repr(v).encode()).hexdigest()[:8]
            obs.append(Ob(f"E7.key:{hole}", "E7.key-injective", where, st, f"{names[hole]}: {text}",
                          key=f"E7.key:{ERRORS}:{hole}:{dig}"))
    # objects de-duplicated by the set() inside flatten(): their __eq__ must compare the identifying fields - unless the
    # definition checks do not range over flatten() at all (proven by the contract of errors(): its reference ranges over
    # _occurrences()) and their keys are adequate
    keys_ok = all(o.status == "ok" for o in obs if o.rule == "E7.key-injective" and (o.id.endswith("key2") or o.id.endswith("key3")))
    over_occurrences = r.status == "ok" and keys_ok and "puan.logic.plog.AtLeast._occurrences" in program.functions
    for cls_q, need in IDENT.items():
        eq, fields = eq_fields(program, cls_q)
        if eq is None:
            obs.append(Ob(f"E7.eq:{cls_q}", "E7.set-element-eq", cls_q, "ok", "identity equality (no merging)"))
            continue
        # id and bounds may be compared through the variable
        covered = set(fields)
        if "variable" in covered:
            covered |= {"id", "bounds"}
        missing = sorted(need - covered)
        whr = f"{eq.file}:{eq.node.lineno} {eq.qualname}"
        ctx.touched.add(eq.qualname)
        if missing and over_occurrences:
            obs.append(Ob(f"E7.eq:{cls_q}", "E7.set-element-eq", whr, "ok",
                          f"{eq.qualname} compares only {sorted(fields)} (ignores {missing}), but the definition checks #2/#3 of errors() range "
                          f"over _occurrences() - every occurrence, nothing merged - with keys that cover the identifying fields; whatever "
                          f"flatten()'s set merges for check #4 and the cycle check are then two definitions of one id, which #2/#3 report"))
        elif missing:
            obs.append(Ob(f"E7.eq:{cls_q}", "E7.set-element-eq", whr, "violation",
                          f"flatten() de-duplicates nodes with set(); {eq.qualname} compares only {sorted(fields)} and ignores {missing}: "
                          f"two different definitions of one id are merged before errors() sees them "
                          f"(x in (0,3) under one parent and x in (1,2) under another is accepted)",
                          key=f"E7.eq:{eq.qualname}:ignores:{','.join(missing)}"))
        else:
            obs.append(Ob(f"E7.eq:{cls_q}", "E7.set-element-eq", whr, "ok", f"compares {sorted(fields)}"))
    # hashes of the objects flatten() puts into its set: which fields they mix no longer matters for validation (the definition
    # checks compare exact tuples), but a hash that depends on the identity of the object would keep equal nodes apart - a
    # shared identical sub-proposition would then appear twice and check #4 would count its edges twice
    for cls_q in ("puan.Bounds", "puan.variable", "puan.logic.plog.AtLeast"):
        ci = program.cls(cls_q)
        h = program.lookup_method(ci, "__hash__")
        if h is None:
            continue
        ctx.touched.add(h.qualname)
        ident = [ast.unparse(n)[:40] for n in ast.walk(h.node) if isinstance(n, ast.Call) and (
            (isinstance(n.func, ast.Name) and n.func.id == "id") or
            (isinstance(n.func, ast.Attribute) and n.func.attr == "__hash__" and not (isinstance(n.func.value, ast.Name) and n.func.value.id == "self")))]
        whr = f"{h.file}:{h.node.lineno} {h.qualname}"
        if ident:
            obs.append(Ob(f"E7.hash:{cls_q}", "E7.hash-identity", whr, "violation",
                          f"{h.qualname} depends on the identity of the object ({ident[0]}): equal nodes get different hashes, set() in "
                          f"flatten() keeps both and a model that merely shares a sub-proposition is rejected by check #4",
                          key=f"E7.hash:{h.qualname}:identity"))
        else:
            obs.append(Ob(f"E7.hash:{cls_q}", "E7.hash-identity", whr, "ok", "a function of the object's fields (no identity)"))
    return obs
