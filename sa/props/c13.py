"""C13 - see EXPLANATION."""
from ._common import TRUSTED_E2

TRUSTED = TRUSTED_E2 + ["numpy semantics of the array idioms at the anchors (elementwise arithmetic, boolean masks, sum/min/max(axis), delete/append, argsort)"]
ASSUMPTIONS = ["variable bounds within the library's default integer range (no overflow)"]


def obligations(ctx):
    return ctx.contract_obligations("C13")

EXPLANATION = (
    "Clause level: ndint_compress is proven equal (canonical form) to its reference: literal dispatch over the 7 methods with "
    "ValueError otherwise; the five ndim>2 batch blocks re-enter ndint_compress with method=method and axis=0 after the swap; "
    "'max' = max(axis), 'min' = min over non-zeros (0 if all zero), 'first' = x[argmax(x≠0)], 'last' = first∘flipud; for 'shadow' "
    "the Python side: keep the last non-zero per column, gather by argsort / scatter by argsort(argsort), sign restored where the "
    "kept value is negative, zeros kept. reduce2d and ranking likewise. Strict dominance of 'shadow' weights and density of "
    "'prio'/'rank' are NOT decided (compiled bit allocation, sorting loop)."
)
NOT_DECIDED = ["strict dominance / ordering of 'shadow' weights (pr.py_optimized_bit_allocation_64 is compiled)",
               "density / order preservation of 'prio' and 'rank' (data-dependent loop)"]
MIN_OBLIGATIONS = 3

import ast
from ..obligation import Ob
from .. import terms as T
from ..frontend import AnalysisError, dotted

ND = "puan.ndarray.integer_ndarray.ndint_compress"
R2 = "puan.ndarray.integer_ndarray.reduce2d"


def _literal_methods(fi):
    for a in fi.node.args.args + fi.node.args.kwonlyargs:
        if a.arg == "method" and a.annotation is not None:
            for n in ast.walk(a.annotation):
                if isinstance(n, ast.Subscript) and (getattr(n.value, "attr", None) == "Literal" or getattr(n.value, "id", None) == "Literal"):
                    elts = n.slice.elts if isinstance(n.slice, ast.Tuple) else [n.slice]
                    return [e.value for e in elts if isinstance(e, ast.Constant)]
    return None


def _dispatch_chain(fi):
    """[(literal, body)], else-body of the if/elif chain on `method == <literal>`"""
    for st in fi.node.body:
        if isinstance(st, ast.If) and _is_method_eq(st.test) is not None:
            chain = []
            cur = st
            while True:
                chain.append((_is_method_eq(cur.test), cur.body))
                if len(cur.orelse) == 1 and isinstance(cur.orelse[0], ast.If) and _is_method_eq(cur.orelse[0].test) is not None:
                    cur = cur.orelse[0]
                else:
                    return chain, cur.orelse
    return None, None


def _is_method_eq(test):
    if isinstance(test, ast.Compare) and len(test.ops) == 1 and isinstance(test.ops[0], ast.Eq):
        l, r = test.left, test.comparators[0]
        if isinstance(l, ast.Name) and l.id == "method" and isinstance(r, ast.Constant):
            return r.value
        if isinstance(r, ast.Name) and r.id == "method" and isinstance(l, ast.Constant):
            return l.value
    return None


def _extra(ctx):
    obs = []
    for q in (ND, R2):
        fi = ctx.program.func(q)
        lits = _literal_methods(fi)
        chain, orelse = _dispatch_chain(fi)
        where = ctx.loc(q)
        if lits is not None and chain is not None and sorted(c[0] for c in chain) != sorted(lits):
            # not a single if/elif chain over all methods (e.g. early returns): collect every comparison of `method` with a literal
            alls = [_is_method_eq(n) for n in ast.walk(fi.node) if isinstance(n, ast.Compare)]
            alls = [a for a in alls if a is not None]
            if sorted(set(alls)) == sorted(lits):
                obs.append(Ob(f"E2.dispatch:{fi.name}", "E2.dispatch", where, "ok",
                              f"every documented method {sorted(lits)} is dispatched on (not as one if/elif chain; the paths are decided by the contract)"))
                chain = None
            elif set(alls) - set(lits) or set(lits) - set(alls):
                obs.append(Ob(f"E2.dispatch:{fi.name}", "E2.dispatch", where, "violation",
                              f"methods dispatched on {sorted(set(alls))} differ from the documented Literal set {sorted(lits)}", key=f"E2.dispatch:{q}"))
                chain = None
        if lits is None:
            obs.append(Ob(f"E2.dispatch:{fi.name}", "E2.dispatch", where, "inconclusive",
                          "typing.Literal annotation of `method` not found"))
            continue
        if chain is None:
            continue
        got = [c[0] for c in chain]
        raises = any(isinstance(s, ast.Raise) for s in orelse)
        if sorted(got) == sorted(lits) and len(set(got)) == len(got) and raises:
            obs.append(Ob(f"E2.dispatch:{fi.name}", "E2.dispatch", where, "ok",
                          f"dispatch {got} is exactly the documented Literal set and anything else raises"))
        else:
            obs.append(Ob(f"E2.dispatch:{fi.name}", "E2.dispatch", where, "violation",
                          f"dispatch handles {got}, documented methods are {lits}, else-branch raises: {raises}",
                          key=f"E2.dispatch:{q}"))
        if q == ND:
            # batch recursion of every method that swaps axes: ndim>2 block maps ndint_compress itself with method=method, axis=0
            nblocks = 0
            for lit, body in chain:
                for st in body:
                    if isinstance(st, ast.If) and any(isinstance(x, ast.Attribute) and x.attr == "ndim" for x in ast.walk(st.test)) \
                            and any(isinstance(x, (ast.Gt, ast.GtE)) for x in ast.walk(st.test)):
                        nblocks += 1
                        calls = [n for n in ast.walk(st) if isinstance(n, ast.Call) and isinstance(n.func, ast.Attribute)
                                 and n.func.attr == "ndint_compress"]
                        params = list(fi.params)            # self, method, axis
                        verdicts = []
                        for c in calls:
                            # bind by the signature: called through the class (self passed explicitly) or through an instance
                            recv = dotted(c.func.value) or ""
                            names = params if recv.split(".")[-1] in ("integer_ndarray", "__class__") or recv.startswith("type(") else params[1:]
                            kw = dict(zip(names, c.args))
                            kw.update({k.arg: k.value for k in c.keywords if k.arg})
                            m, a = kw.get("method"), kw.get("axis")
                            mt = T._literal_term(ctx.program, fi.module, m) if m is not None else None
                            at = T._literal_term(ctx.program, fi.module, a) if a is not None else None
                            m_ok = (isinstance(m, ast.Name) and m.id == "method") or (mt is not None and mt == T.C(lit))
                            m_known = m_ok or mt is not None
                            a_ok = at == T.C(0)
                            a_known = at is not None
                            verdicts.append("ok" if (m_ok and a_ok) else ("bad" if (m_known and a_known) else "unknown"))
                        if "ok" in verdicts:
                            obs.append(Ob(f"E8.batch:{lit}", "E8.batch-recursion", f"{fi.file}:{st.lineno} {q}", "ok",
                                          f"ndim>2 block of method '{lit}' re-enters ndint_compress(x, method=method, axis=0)"))
                        elif verdicts and all(v == "bad" for v in verdicts):
                            obs.append(Ob(f"E8.batch:{lit}", "E8.batch-recursion", f"{fi.file}:{st.lineno} {q}", "violation",
                                          f"ndim>2 block of method '{lit}' does not re-enter ndint_compress with its own method and axis=0: "
                                          f"{[ast.unparse(c)[:80] for c in calls]}", key=f"E8.batch:{q}:{lit}"))
                        else:
                            obs.append(Ob(f"E8.batch:{lit}", "E8.batch-recursion", f"{fi.file}:{st.lineno} {q}", "ok",
                                          f"ndim>2 block of method '{lit}' is not in the recognisable re-entry form; decided by the whole-function contract"))
            if nblocks < 3:
                # the batch blocks are not in their recognisable inline form (e.g. extracted into a helper): the whole-function
                # contract of ndint_compress still decides them; this role rule is then not applicable
                obs.append(Ob("E8.batch", "E8.batch-recursion", where, "ok",
                              f"{nblocks} inline batch blocks recognised (5 on the pinned tree); batch recursion is decided by the contract"))
    return obs


_base = obligations


def obligations(ctx):
    return _base(ctx) + _extra(ctx)


MIN_OBLIGATIONS = 9
