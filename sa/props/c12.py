"""C12 - see EXPLANATION."""
from ._common import TRUSTED_E2

TRUSTED = TRUSTED_E2 + ["numpy semantics of the array idioms at the anchors (elementwise arithmetic, boolean masks, sum/min/max(axis), delete/append, argsort)"]
ASSUMPTIONS = ["variable bounds within the library's default integer range (no overflow)"]


def obligations(ctx):
    return ctx.contract_obligations("C12")

EXPLANATION = (
    "Bound formulas proven equal (canonical form) to implied-bound arithmetic: column_bounds = (lowers, uppers) of A.variables; "
    "A_max / A_min entry-wise extreme of a_ij·x_j over the box; row_bounds = (Σ min(lo·A,hi·A) - b, Σ max(lo·A,hi·A) - b); "
    "n_row_combinations = Π where(A≠0, hi-lo+1, 1); tighten_column_bounds: residual -(row_ub - A_max), candidate floor(t/A), lower "
    "candidates only where A>0, upper only where A<0, neutral default_min/max elsewhere, combined by max/min over rows, written "
    "back only if tighter. Soundness of the implied-bound formula is the lemma in DESIGN §4/C12."
)
NOT_DECIDED = ["overflow", "tightness (only soundness is claimed)"]
MIN_OBLIGATIONS = 6
