"""C05 - negation is the exact complement and stays in solver-safe form.

Affine-relation analysis of AtLeast.negate on its IR term, per (return path x sign case), plus the typestate
"solver-safe form" of the result, plus the id rule; Not.__new__ by contract equivalence.
"""
import hashlib

from .. import terms as T
from ..frontend import AnalysisError
from ..obligation import Ob

EXPLANATION = (
    "negate() is analysed path by path on its lowered term (sign case split, constructor projections justified by the "
    "AtLeast.__init__ contract). With the children as symbols (S_A = sum of atom children, S_K = sum of compound children, "
    "n_K their number) and c̄ = 1 - c for every child replaced by its negation (induction over the acyclic model), the "
    "returned (sign', value', children') must satisfy  sign'·Σchildren' - value'  ≡  -(sign·Σchildren - value) - 1  as "
    "linear forms: that is the integer complement ¬(e >= v) ⇔ -e >= 1 - v. Typestate: on every return path sign' = +1 or "
    "the path condition implies there is no compound child (claimed over boolean leaves, as the property states). Paths whose "
    "condition or children the linear argument cannot follow (value-dependent guards, guards on the atoms' declared bounds, unit "
    "members AtLeast(1,[x]) per atom, a group of the atoms) are decided by enumeration of abstract states: <= 2 atom children "
    "with declared bounds (0,1) / (0,2) / (-1,2) and every value in them, <= 2 compound children in {0,1}, value in [-3,4]. "
    "Id rule: variable = None if generated_id else self.variable. "
    "Not(p) ≡ negate(All(p) if atom else p) by contract equivalence."
)
TRUSTED = ["lowering/canonicaliser (sa/terms.py)", "constructor projections AtLeast(value=v,sign=s,propositions=P).value = v, .sign = s, "
           ".propositions ≈ P (contract E2:plog.AtLeast.__init__, an obligation of this property)",
           "induction hypothesis: negate() of a child is its complement (children are boolean 0/1 nodes)"]
ASSUMPTIONS = ["models are acyclic (C10)", "compound children take values in {0,1}"]
NOT_DECIDED = []
PROTECTED = ["puan.logic.plog.AtLeast.negate"]
MIN_OBLIGATIONS = 8

NEG = "puan.logic.plog.AtLeast.negate"
ATLEAST = "puan.logic.plog.AtLeast"


def _strip_list(t):
    if t is None:
        raise Uninterp('missing argument')
    if t[0] == 'call' and t[1] in (T.G('list'), T.G('tuple'), T.G('sorted')) and len(t[2]) == 1 and not t[3]:
        return _strip_list(t[2][0])
    return t


def project(t):
    """constructor projections and child-partition markers"""
    def f(x):
        if x[0] == 'attr':
            o = x[1]
            base = o
            upd = {}
            while base[0] == 'upd':
                upd.setdefault(base[2], base[3])
                base = base[1]
            if x[2] in upd:
                return upd[x[2]]
            if base[0] == 'call' and base[1] == T.G(ATLEAST) and not base[2]:
                kw = dict(base[3])
                if x[2] in ('value', 'sign') and x[2] in kw and kw[x[2]] != T.NONE:
                    return kw[x[2]]
                if x[2] == 'propositions' and 'propositions' in kw:
                    return _strip_list(kw['propositions'])
                if x[2] == 'compound_propositions' and 'propositions' in kw:
                    return T.call(T.G('$compounds'), [_strip_list(kw['propositions'])])
                if x[2] == 'atomic_propositions' and 'propositions' in kw:
                    return T.call(T.G('$atoms'), [_strip_list(kw['propositions'])])
            if o == T.V('self') and x[2] == 'compound_propositions':
                return T.call(T.G('$compounds'), [('attr', T.V('self'), 'propositions')])
            if o == T.V('self') and x[2] == 'atomic_propositions':
                return T.call(T.G('$atoms'), [('attr', T.V('self'), 'propositions')])
        if x[0] == 'call' and x[1] in (T.G('list'), T.G('tuple')) and len(x[2]) == 1 and not x[3] and \
                x[2][0][0] == 'call' and x[2][0][1] in (T.G('$compounds'), T.G('$atoms')):
            return x[2][0]
        return None
    prev = None
    cur = t
    for _ in range(6):
        if cur == prev:
            break
        prev = cur
        cur = T.norm(T.replace(cur, f))
    return cur


def paths(t, guards=()):
    if t[0] == 'if':
        yield from paths(t[2], guards + ((t[1], True),))
        yield from paths(t[3], guards + ((t[1], False),))
    else:
        yield guards, t


P_SELF = ('attr', T.V('self'), 'propositions')
COMP = T.canonical(T.call(T.G('$compounds'), [P_SELF]))
ATOMS = T.canonical(T.call(T.G('$atoms'), [P_SELF]))
LEN = lambda x: T.call(T.G('len'), [x])


def _facts(guards):
    """recognise the path conditions that matter"""
    facts = set()
    unknown = []
    has_compound = T.canonical(('cmp', 'Lt', LEN(ATOMS), LEN(P_SELF)))
    has_atom = T.canonical(('cmp', 'Lt', LEN(COMP), LEN(P_SELF)))
    for c, pol in guards:
        parts = c[1] if c[0] == 'and' else (c,)
        if c[0] == 'and' and not pol:
            # not (a and b): nothing definite about the conjuncts unless only one is non-constant
            parts = tuple(p for p in parts if p[0] != 'const')
            if len(parts) != 1:
                unknown.append((c, pol))
                continue
        for p in parts:
            if p == has_compound:
                facts.add('has_compound' if pol else 'all_atoms')
            elif p == has_atom:
                facts.add('has_atom' if pol else 'no_atoms')
            elif p == T._negate_bool(has_compound):
                facts.add('all_atoms' if pol else 'has_compound')
            elif p == T._negate_bool(has_atom):
                facts.add('no_atoms' if pol else 'has_atom')
            elif p[0] == 'const':
                continue
            else:
                unknown.append((p, pol))
    return facts, unknown


def _lin_add(a, b, k=1):
    out = dict(a)
    for s, c in b.items():
        out[s] = out.get(s, 0) + k * c
    return {s: c for s, c in out.items() if c != 0}


def _children_form(ch):
    """Σ children' as a linear form over S_A, S_K, n_K, G, 1 (with c̄ = 1 - c for negated children)."""
    ch = _strip_list(ch)
    if ch == P_SELF:
        return {'S_A': 1, 'S_K': 1}, None, 'all children, not negated'
    if ch[0] == 'map' and ch[1][0] == 'lam' and ch[1][1] == 1:
        body = ch[1][2]
        neg = T.call(('attr', ('bv', 0, 0), 'negate'), [])
        if body != neg:
            return None, None, 'children are mapped through something other than negate()'
        src = _strip_list(ch[2])
        if src == COMP:
            return {'n_K': 1, 'S_K': -1}, None, 'every compound child negated'
        if src[0] == 'concat' and len(src[1]) == 2 and _strip_list(src[1][0]) == COMP and src[1][1][0] == 'list' and len(src[1][1][1]) == 1:
            g = src[1][1][1][0]
            if g[0] == 'call' and g[1] == T.G(ATLEAST):
                kw = dict(g[3])
                if _strip_list(kw.get('propositions', T.NONE)) == ATOMS:
                    return {'n_K': 1, '1': 1, 'S_K': -1, 'G': -1}, g, 'compound children + synthetic group of the atoms, all negated'
        if src == ATOMS:
            return None, None, 'atoms are negated individually (not produced by any known path)'
    return None, None, 'unrecognised children expression'


def _value_form(v):
    """value' as a linear form over v, n_K, 1"""
    p = T._poly_of(v) if v[0] in ('poly', 'binop', 'const') else {(v,): 1}
    if p is None:
        p = {(v,): 1}
    out = {}
    for mono, c in p.items():
        if mono == ():
            out['1'] = out.get('1', 0) + c
        elif len(mono) == 1:
            a = mono[0]
            if a == ('attr', T.V('self'), 'value'):
                out['v'] = out.get('v', 0) + c
            elif a == T.canonical(LEN(COMP)) or a == LEN(COMP):
                out['n_K'] = out.get('n_K', 0) + c
            elif a[0] == 'call' and a[1] == T.G('len') and len(a[2]) == 1:
                x = _strip_list(a[2][0])
                if x == COMP:
                    out['n_K'] = out.get('n_K', 0) + c
                elif x[0] == 'concat' and len(x[1]) == 2 and _strip_list(x[1][0]) == COMP and x[1][1][0] == 'list':
                    out['n_K'] = out.get('n_K', 0) + c
                    out['1'] = out.get('1', 0) + c * len(x[1][1][1])
                elif x == P_SELF:
                    out['n_P'] = out.get('n_P', 0) + c
                else:
                    return None
            else:
                return None
        else:
            return None
    return {k: c for k, c in out.items() if c != 0}


def analyse(program):
    fi = program.func(NEG)
    raw = T.FuncLower(program, fi).term()
    results = []
    for s in (1, -1):
        t = T.replace(raw, lambda x: T.C(s) if x[0] == 'attr' and x[2] == 'sign' and x[1] == T.V('self') else None)
        t = T.canonical(project(T.norm(t)))
        for guards, leaf in paths(t):
            results.append((s, guards, leaf))
    return fi, results


def decide_path(s, guards, leaf):
    """-> dict(name, aff=(status, detail), safe=(status, detail), idrule=(status, detail), digest)"""
    facts, unknown = _facts(guards)
    if unknown:
        # path conditions in another syntactic form (truthiness of a child list, len(...) == 0, ...): derive the same facts by
        # enumerating which abstract states (number of atom / compound children) can take this path
        try:
            outcome = {}
            for st_ in states():
                outcome.setdefault((st_['nA'], st_['nK']), set()).add(all(bool(interp(g, st_)) == pol for g, pol in guards))
            feas = sorted(k_ for k_, o in outcome.items() if True in o)
            vdep = any(len(o) > 1 for o in outcome.values())      # the guards also depend on the value / on the atoms' bounds
            if feas:
                facts = set()
                if all(nK >= 1 for _, nK in feas):
                    facts.add('has_compound')
                if all(nK == 0 for _, nK in feas):
                    facts.add('all_atoms')
                if all(nA >= 1 for nA, _ in feas):
                    facts.add('has_atom')
                if all(nA == 0 for nA, _ in feas):
                    facts.add('no_atoms')
                want = {(a, k) for a in range(3) for k in range(3)
                        if ('has_compound' not in facts or k >= 1) and ('all_atoms' not in facts or k == 0)
                        and ('has_atom' not in facts or a >= 1) and ('no_atoms' not in facts or a == 0)}
                if want == set(feas) and not vdep:
                    unknown = []          # the facts characterise the path exactly
        except Uninterp:
            pass
    name = {frozenset(): 'no-push'}.get(frozenset(facts))
    if 'has_compound' in facts and 'has_atom' in facts:
        name = 'mixed-push'
    elif 'has_compound' in facts and 'no_atoms' in facts:
        name = 'compound-push'
    elif 'all_atoms' in facts:
        name = 'no-push(all-atoms)'
    elif name is None:
        name = 'path(' + ','.join(sorted(facts)) + ')'
    res = {'name': name, 'sign': s, 'facts': sorted(facts)}
    r0 = _decide_symbolic(s, guards, leaf, facts, unknown, res)
    # fallback / cross-check: bounded abstract enumeration refutes (or supports) what the linear-form argument could not decide
    if r0['aff'][0] == 'inconclusive' or r0['safe'][0] == 'inconclusive':
        bst, btxt = bounded_check(s, guards, leaf)
        if r0['aff'][0] == 'inconclusive':
            r0['aff'] = (bst, btxt + ' | ' + r0['aff'][1][:200])
        if r0['safe'][0] == 'inconclusive' and bst != 'inconclusive':
            r0['safe'] = _bounded_safe(s, guards, leaf)
        if r0.get('digest') in (None, 'x'):
            r0['digest'] = hashlib.sha256(repr(leaf).encode()).hexdigest()[:10]
            if name.startswith('path('):
                r0['name'] = 'path#' + r0['digest'][:6]
    return r0


def _bounded_safe(s, guards, leaf):
    """typestate by enumeration: on every feasible abstract state sign' = +1 or there is no compound child"""
    import itertools as it
    try:
        for st in states():
            if True:
                nA, nK, v = st['nA'], st['nK'], st['v']
                if any(b != (0, 1) for b in st['ab']):
                    continue            # the solver-safe clause of the property is stated over boolean leaves
                if not all(bool(interp(g, st)) == pol for g, pol in guards):
                    continue
                obj = leaf[1]
                if obj[0] == 'call' and obj[1][0] == 'attr' and obj[1][2] == 'negate':
                    continue            # the negation of a child: solver-safe by induction
                upd = {}
                base = obj
                while base[0] == 'upd':
                    upd.setdefault(base[2], base[3])
                    base = base[1]
                kw = dict(base[3]) if base[0] == 'call' else {}
                sg = interp(upd.get('sign', kw.get('sign')), st)
                ch = _strip_list(upd.get('propositions', kw.get('propositions')))
                keeps_compounds = (ch == P_SELF and nK > 0) or (ch[0] == 'map' and nK > 0) or (ch == COMP and nK > 0)
                if sg == -1 and keeps_compounds:
                    return ('violation', f"sign' = -1 with compound children (value={v}, {nA} atoms, {nK} compounds): not solver-safe")
        return ('ok', "by enumeration: sign' = +1 or no compound child on every feasible abstract state")
    except Uninterp as e:
        return ('inconclusive', f"not interpretable: {e}")
    except Exception as e:
        return ('inconclusive', f"typestate not decidable: {e!r}")


def _idrule(leaf):
    """id of the returned object: variable = None if generated_id else self.variable"""
    if leaf[0] != 'ret':
        return ('ok', '')
    base = leaf[1]
    upd = {}
    while base[0] == 'upd':
        upd.setdefault(base[2], base[3])
        base = base[1]
    if base[0] == 'call' and base[1] == T.G(ATLEAST) and not base[2]:
        want = T.canonical(('if', ('attr', T.V('self'), 'generated_id'), T.NONE, ('attr', T.V('self'), 'variable')))
        got = upd.get('variable', dict(base[3]).get('variable'))
        return ('ok', '') if got == want else ('violation', f"variable of the result is {T.show(got) if got else 'missing'}, expected None if generated_id else self.variable")
    if base[0] == 'call' and base[1][0] == 'attr' and base[1][2] == 'negate':
        return ('violation', f"the path returns `{T.show(base)[:120]}` - the negation of a child, which carries the child's id: an "
                             f"explicitly given id of the negated node is not kept")
    return ('inconclusive', 'id of the returned object not determined')


def _decide_symbolic(s, guards, leaf, facts, unknown, res):
    name = res['name']
    if leaf[0] != 'ret':
        res['aff'] = ('violation', f"path ends in {leaf[0]} instead of returning a proposition")
        res['safe'] = res['idrule'] = ('ok', '')
        res['digest'] = hashlib.sha256(repr(leaf).encode()).hexdigest()[:10]
        return res
    if unknown:
        res['aff'] = res['safe'] = ('inconclusive', 'unrecognised path condition: ' + T.show(unknown[0][0])[:200])
        res['idrule'] = _idrule(leaf)
        res['digest'] = 'x'
        return res
    obj, eff = leaf[1], leaf[2]
    upd = {}
    base = obj
    while base[0] == 'upd':
        upd.setdefault(base[2], base[3])
        base = base[1]
    if not (base[0] == 'call' and base[1] == T.G(ATLEAST) and not base[2]):
        res['aff'] = res['safe'] = ('inconclusive', 'returned object is not built by AtLeast(...): ' + T.show(base)[:200])
        res['digest'] = 'x'
        if base[0] == 'call' and base[1][0] == 'attr' and base[1][2] == 'negate':
            res['idrule'] = ('violation', f"the path returns `{T.show(base)[:120]}` - the negation of a child, which carries the child's id: an "
                                          f"explicitly given id of the negated node is not kept")
        else:
            res['idrule'] = ('inconclusive', 'id of the returned object not determined')
        return res
    kw = dict(base[3])
    sign2 = upd.get('sign', kw.get('sign'))
    value2 = upd.get('value', kw.get('value'))
    children2 = upd.get('propositions', kw.get('propositions'))
    if sign2 is None or value2 is None or children2 is None:
        miss = [n for n, v in (('sign', sign2), ('value', value2), ('propositions', children2)) if v is None]
        res['aff'] = res['safe'] = ('violation', f"the returned AtLeast(...) is built without {miss}")
        res['idrule'] = ('ok', '')
        res['digest'] = hashlib.sha256(repr(base).encode()).hexdigest()[:10]
        return res
    res['digest'] = hashlib.sha256(repr((sign2, value2, children2)).encode()).hexdigest()[:10]
    res['triple'] = f"sign'={T.show(sign2)}, value'={T.show(value2)}, children'={T.show(children2)[:300]}"
    if sign2[0] == 'if' and all(x[0] == 'const' and x[1] in (1, -1) for x in (sign2[2], sign2[3])) and sign2[2] != sign2[3]:
        # sign' depends on a run-time condition: both outcomes are possible results of this path and each must be a complement
        subs = []
        for leafsign, pol in ((sign2[2], True), (sign2[3], False)):
            leaf2 = ('ret', ('upd', obj, 'sign', leafsign), eff)
            r2 = decide_path(s, guards, leaf2)
            subs.append((leafsign[1], r2))
        bad = [(sg, r2) for sg, r2 in subs if r2['aff'][0] != 'ok' or r2['safe'][0] != 'ok']
        res['idrule'] = subs[0][1]['idrule']
        if bad:
            sg, r2 = bad[0]
            cond = T.show(sign2[1])[:160]
            res['aff'] = (r2['aff'][0] if r2['aff'][0] != 'ok' else 'ok', f"sign' is chosen at run time by `{cond}`; when it is {sg:+d}: " + r2['aff'][1])
            res['safe'] = (r2['safe'][0] if r2['safe'][0] != 'ok' else 'ok', f"sign' is chosen at run time by `{cond}`; when it is {sg:+d}: " + r2['safe'][1])
        else:
            res['aff'] = ('ok', 'both run-time choices of sign satisfy the complement identity')
            res['safe'] = ('ok', 'both run-time choices of sign are solver-safe')
        return res
    if eff:
        res['aff'] = ('violation', 'negate() has side effects: ' + '; '.join(T.show(e)[:120] for e in eff))
    elif sign2[0] != 'const' or sign2[1] not in (1, -1):
        res['aff'] = ('inconclusive', f"sign' is not a constant in this case: {T.show(sign2)}")
    else:
        cf, g, what = _children_form(children2)
        vf = _value_form(value2)
        if cf is None:
            res['aff'] = ('inconclusive' if 'unrecognised' in what else 'violation', what)
        elif vf is None:
            res['aff'] = ('inconclusive', f"value' is not linear in value / number of compounds: {T.show(value2)[:200]}")
        else:
            lhs = _lin_add({k: sign2[1] * c for k, c in cf.items()}, vf, -1)            # sign'·Σ' - value'
            rhs = _lin_add({'S_A': -s, 'S_K': -s, 'v': 1}, {'1': 1}, -1)                  # -(s·Σ - v) - 1
            d = _lin_add(lhs, rhs, -1)
            if 'no_atoms' in facts or 'all_atoms' in facts:
                d.pop('S_A' if 'no_atoms' in facts else 'S_K', None)
                if 'all_atoms' in facts:
                    d.pop('n_K', None)
            if not d:
                res['aff'] = ('ok', f"{what}: sign'·Σ' - value' ≡ -(sign·Σ - value) - 1")
            else:
                extra = ''
                if 'G' in d:
                    gk = dict(g[3]) if g else {}
                    extra = (f"; the synthetic group G=[{T.show(gk.get('sign', T.NONE))}·Σatoms >= {T.show(gk.get('value', T.NONE))}] "
                             f"is a 0/1 value, not the sum of the atoms, so the relation is not the complement "
                             f"(e.g. All(a,b,Any(x,y)).negate() is a tautology)")
                res['aff'] = ('violation', f"{what}: sign'·Σ' - value' differs from the complement by {d}{extra}")
    # typestate
    if sign2 == T.C(1):
        res['safe'] = ('ok', "sign' = +1")
    elif 'all_atoms' in facts:
        res['safe'] = ('ok', "sign' = -1 and the path condition excludes compound children")
    elif sign2 == T.C(-1):
        res['safe'] = ('violation', "sign' = -1 on a path where compound children may exist (not solver-safe)")
    else:
        res['safe'] = ('inconclusive', f"sign' = {T.show(sign2)}")
    # id rule
    want = T.canonical(('if', ('attr', T.V('self'), 'generated_id'), T.NONE, ('attr', T.V('self'), 'variable')))
    got = kw.get('variable')
    if 'variable' in upd:
        got = upd['variable']
    res['idrule'] = ('ok', '') if got == want else ('violation', f"variable of the result is {T.show(got) if got else 'missing'}, expected None if generated_id else self.variable")
    return res


# ------------------------------------------------------------------------------------------------
# bounded abstract check (refutation / fallback): the abstract state of a node is (value v, number of atom children n_A,
# number of compound children n_K, 0/1 values of the children). Path conditions and value' are interpreted over it.
# ------------------------------------------------------------------------------------------------
class Uninterp(Exception):
    pass


def _G_of(x):
    """concat(COMP, [G]) -> G term, or None"""
    x = _strip_list(x)
    if x[0] == 'concat' and len(x[1]) == 2 and _strip_list(x[1][0]) == COMP and x[1][1][0] == 'list' and len(x[1][1][1]) == 1:
        return x[1][1][1][0]
    return None


def _len_of(x, st):
    """number of members of a child-list term (None when not recognised)"""
    x = _strip_list(x)
    if x == P_SELF:
        return st['nA'] + st['nK']
    if x == COMP:
        return st['nK']
    if x == ATOMS:
        return st['nA']
    if x[0] == 'list':
        return len(x[1])
    if x[0] == 'map':
        return _len_of(x[2], st)
    if x[0] == 'concat':
        parts = [_len_of(p_, st) for p_ in x[1]]
        return None if any(p_ is None for p_ in parts) else sum(parts)
    return None


ATOM_BOUNDS = ((0, 1), (0, 2), (-1, 2), (-1, 1))      # boolean, non-negative integer, general integer, negative lower bound with upper bound 1


def states(max_a=2, max_k=2):
    """abstract states: value, number of atom / compound children, declared bounds of every atom child"""
    import itertools as it
    for nA, nK in it.product(range(0, max_a + 1), range(0, max_k + 1)):
        for ab in it.product(ATOM_BOUNDS, repeat=nA):
            for v in range(-3, 5):
                yield {'v': v, 'nA': nA, 'nK': nK, 'ab': ab}


def interp(t, st):
    if t is None:
        raise Uninterp('missing argument')
    k = t[0]
    if k == 'const':
        if isinstance(t[1], (bool, int)):
            return int(t[1]) if isinstance(t[1], bool) else t[1]
        raise Uninterp(T.show(t))
    if t == ('attr', T.V('self'), 'value'):
        return st['v']
    if k == 'call' and t[1] == T.G('len') and len(t[2]) == 1:
        x = _strip_list(t[2][0])
        if x == P_SELF:
            return st['nA'] + st['nK']
        if x == COMP:
            return st['nK']
        if x == ATOMS:
            return st['nA']
        if _G_of(x) is not None:
            return st['nK'] + 1
        n = _len_of(x, st)
        if n is not None:
            return n
        raise Uninterp(T.show(t))
    if k == 'call' and t[1] in (T.G('min'), T.G('max'), T.G('sum')) and len(t[2]) == 1 and not t[3] and t[2][0][0] == 'map' \
            and t[2][0][1][0] == 'lam' and t[2][0][1][1] == 1 and _strip_list(t[2][0][2]) == ATOMS:
        # the smallest / largest / total of a quantity of the atom children (their declared bounds)
        body = t[2][0][1][2]
        vals = [interp(body, dict(st, bv=b)) for b in st.get('ab', ((0, 1),) * st['nA'])[:st['nA']]]
        if not vals and t[1] != T.G('sum'):
            raise Uninterp('min / max of no atoms')
        return {'min': min, 'max': max, 'sum': sum}[t[1][1]](vals)
    if k == 'call' and t[1] in (T.G('abs'), T.G('min'), T.G('max'), T.G('int')) and not t[3]:
        args = [interp(a, st) for a in t[2]]
        return {'abs': abs, 'min': min, 'max': max, 'int': int}[t[1][1]](*args)
    if k == 'poly':
        tot = 0
        for c, mono in t[1]:
            prod = c
            for a in mono:
                prod *= interp(a, st)
            tot += prod
        return tot
    if k == 'binop' and t[1] in ('Add', 'Sub', 'Mult'):
        a, b = interp(t[2], st), interp(t[3], st)
        return a + b if t[1] == 'Add' else (a - b if t[1] == 'Sub' else a * b)
    if k == 'ge0':
        return int(interp(t[1], st) >= 0)
    if k == 'cmp' and t[1] in ('Eq', 'NotEq', 'Lt', 'LtE', 'Gt', 'GtE'):
        a, b = interp(t[2], st), interp(t[3], st)
        return int({'Eq': a == b, 'NotEq': a != b, 'Lt': a < b, 'LtE': a <= b, 'Gt': a > b, 'GtE': a >= b}[t[1]])
    if k == 'not':
        return int(not interp(t[1], st))
    # truthiness of a child list
    x0 = _strip_list(t)
    if x0 == COMP:
        return st['nK']
    if x0 == ATOMS:
        return st['nA']
    if x0 == P_SELF:
        return st['nA'] + st['nK']
    # a predicate over the atom children: all(map(lambda atom: <condition on atom.bounds>, atoms))
    if k == 'call' and t[1] in (T.G('all'), T.G('any')) and len(t[2]) == 1 and not t[3] and t[2][0][0] == 'map' \
            and t[2][0][1][0] == 'lam' and t[2][0][1][1] == 1 and _strip_list(t[2][0][2]) == ATOMS:
        body = t[2][0][1][2]
        vals = [bool(interp(body, dict(st, bv=b))) for b in st.get('ab', ((0, 1),) * st['nA'])[:st['nA']]]
        return int(all(vals) if t[1] == T.G('all') else any(vals))
    if k == 'attr' and t[2] in ('lower', 'upper') and t[1] == ('attr', ('bv', 0, 0), 'bounds') and 'bv' in st:
        return st['bv'][0 if t[2] == 'lower' else 1]
    if k == 'tuple':
        return tuple(interp(x, st) for x in t[1])
    if k == 'and':
        return int(all(interp(x, st) for x in t[1]))
    if k == 'or':
        return int(any(interp(x, st) for x in t[1]))
    if k == 'if':
        return interp(t[2], st) if interp(t[1], st) else interp(t[3], st)
    raise Uninterp(T.show(t)[:120])


def _truth_of_result(obj, st, atoms, comps):
    """truth value (0/1) of the proposition returned on this path, in abstract state st with the given child values"""
    # (b) the negation of one single child is returned
    if obj[0] == 'call' and obj[1][0] == 'attr' and obj[1][2] == 'negate' and not obj[2] and obj[1][1][0] == 'sub' and obj[1][1][2] == T.C(0):
        src = _strip_list(obj[1][1][1])
        if src == COMP and comps:
            return 1 - comps[0], 'child'
        g = _G_of(src)
        if g is not None:
            seq = list(comps) + [_truth_G(g, st, atoms)]
            return 1 - seq[0], 'child'
        raise Uninterp('negate() of ' + T.show(src)[:80])
    upd = {}
    base = obj
    while base[0] == 'upd':
        upd.setdefault(base[2], base[3])
        base = base[1]
    if not (base[0] == 'call' and base[1] == T.G(ATLEAST) and not base[2]):
        raise Uninterp('result is not AtLeast(...)')
    kw = dict(base[3])
    sign2 = interp(upd.get('sign', kw.get('sign')), st)
    value2 = interp(upd.get('value', kw.get('value')), st)
    ch = _strip_list(upd.get('propositions', kw.get('propositions')))
    if ch == P_SELF:
        total = sum(atoms) + sum(comps)
    elif ch[0] == 'map' and ch[1][0] == 'lam' and ch[1][2] == T.call(('attr', ('bv', 0, 0), 'negate'), []):
        src = _strip_list(ch[2])
        if src == COMP:
            total = sum(1 - c for c in comps)
        elif _G_of(src) is not None:
            total = sum(1 - c for c in comps) + (1 - _truth_G(_G_of(src), st, atoms))
        elif src == ATOMS:
            total = sum(1 - a for a in atoms)
        elif src == P_SELF:
            total = sum(1 - a for a in atoms) + sum(1 - c for c in comps)
        else:
            mem = _members(src, st, atoms, comps)
            if src == ATOMS or any(x not in (0, 1) for x in mem):
                raise Uninterp('negate() applied to a member that is not a 0/1 proposition')
            total = sum(1 - x for x in mem)
    elif ch == COMP:
        total = sum(comps)
    elif ch == ATOMS:
        total = sum(atoms)
    else:
        raise Uninterp('children ' + T.show(ch)[:80])
    return int(sign2 * total - value2 >= 0), ('own' if True else '')


def _ctor_truth(c, total, st):
    """truth of AtLeast(value=.., sign=.., propositions=<members summing to total>)"""
    kw = dict(c[3])
    val = interp(kw.get('value'), st)
    sg = interp(kw.get('sign'), st) if kw.get('sign', T.NONE) != T.NONE else (1 if val > 0 else -1)
    return int(sg * total - val >= 0)


def _members(src, st, atoms, comps):
    """values of the members of a child-list term: compound children are 0/1, atom children carry their integer value, a
    freshly constructed AtLeast(...) over atoms carries its truth value"""
    src = _strip_list(src)
    if src == COMP:
        return list(comps)
    if src == ATOMS:
        return list(atoms)
    if src == P_SELF:
        return list(atoms) + list(comps)
    if src[0] == 'concat':
        out = []
        for p_ in src[1]:
            out += _members(p_, st, atoms, comps)
        return out
    if src[0] == 'list':
        out = []
        for e in src[1]:
            if e[0] == 'call' and e[1] == T.G(ATLEAST) and not e[2]:
                out.append(_ctor_truth(e, sum(_members(dict(e[3]).get('propositions'), st, atoms, comps)), st))
            else:
                raise Uninterp('member ' + T.show(e)[:80])
        return out
    if src[0] == 'map' and src[1][0] == 'lam' and src[1][1] == 1:
        body = src[1][2]
        inner = _members(src[2], st, atoms, comps)
        if body[0] == 'call' and body[1] == T.G(ATLEAST) and not body[2] and _strip_list(dict(body[3]).get('propositions')) == ('list', (('bv', 0, 0),)):
            return [_ctor_truth(body, x, st) for x in inner]          # one unit node per member
        raise Uninterp('mapped member ' + T.show(body)[:80])
    raise Uninterp('children ' + T.show(src)[:80])


def _truth_G(g, st, atoms):
    kw = dict(g[3])
    sg = interp(kw.get('sign'), st) if kw.get('sign', T.NONE) != T.NONE else (1 if interp(kw.get('value'), st) > 0 else -1)
    return int(sg * sum(atoms) - interp(kw.get('value'), st) >= 0)


def bounded_check(s, guards, leaf):
    """-> ('violation', witness text) | ('ok', text) | ('inconclusive', text)"""
    import itertools as it
    if leaf[0] != 'ret':
        return ('inconclusive', 'path does not return')
    npoints = 0
    try:
        for st in states():
            if True:
                nA, nK, v = st['nA'], st['nK'], st['v']
                feasible = all(bool(interp(g, st)) == pol for g, pol in guards)
                if not feasible:
                    continue
                for atoms in it.product(*[range(lo, hi + 1) for lo, hi in st['ab']]):
                    for comps in it.product((0, 1), repeat=nK):
                        npoints += 1
                        orig = int(s * (sum(atoms) + sum(comps)) - v >= 0)
                        got, _ = _truth_of_result(leaf[1], st, atoms, comps)
                        if got != 1 - orig:
                            return ('violation', f"counterexample in the abstract semantics: sign={s:+d}, value={v}, {nA} atom children {list(atoms)}, "
                                                 f"{nK} compound children {list(comps)}: original is {orig}, the returned proposition is {got} (not the complement)")
    except Uninterp as e:
        return ('inconclusive', f"not interpretable: {e}")
    if npoints == 0:
        return ('ok', 'path infeasible for every abstract state with <= 2 atom and <= 2 compound children, value in [-3,4]')
    return ('ok', f"no counterexample over {npoints} abstract states (<= 2 atoms with bounds (0,1) / (0,2) / (-1,2), <= 2 compounds, value in [-3,4]); "
                  f"path condition and value' are piecewise linear in these")


CONTROL = '''
import puan
class AtLeast:
    def negate(self):
        negated = AtLeast(value=(self.value*-1)+1, propositions=self.propositions, variable=None if self.generated_id else self.variable, sign=-1*self.sign)
        atoms = list(negated.atomic_propositions)
        if (negated.sign == -1) and (len(atoms) < len(negated.propositions)):
            compounds = list(negated.compound_propositions)
            negated.propositions = list(map(lambda c: c.negate(), compounds))
            negated.sign = 1
            negated.value += len(compounds) - 1
        return negated
'''


def obligations(ctx):
    program = ctx.program
    fi, results = analyse(program)
    where = ctx.loc(NEG)
    obs = []
    seen = set()
    for s, guards, leaf in results:
        r = decide_path(s, guards, leaf)
        pid = f"{r['name']}/sign={'+1' if s > 0 else '-1'}"
        if pid in seen:
            pid += '#' + r['digest']
        seen.add(pid)
        for rule, k in (("E2.affine", 'aff'), ("E6.solver-safe", 'safe'), ("E2.id", 'idrule')):
            st, detail = r[k]
            key = f"{rule}:{NEG}:{r['name']}:{r['digest']}"
            obs.append(Ob(f"{rule}:{pid}", rule, where, st, (detail + (' | ' + r.get('triple', '') if st != 'ok' else ''))[:900], key=key))
    if len(results) < 4:
        raise AnalysisError(f"negate(): only {len(results)} (path x sign) cases found, expected at least 4")
    obs += ctx.contract_obligations("C05")
    return obs
