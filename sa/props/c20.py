"""C20 - see EXPLANATION."""
from ._common import TRUSTED_E2

TRUSTED = TRUSTED_E2 + ["numpy semantics of the array idioms at the anchors (elementwise arithmetic, boolean masks, sum/min/max(axis), delete/append, argsort)"]
ASSUMPTIONS = ["variable bounds within the library's default integer range (no overflow)"]


def obligations(ctx):
    return ctx.contract_obligations("C20")

EXPLANATION = (
    "Bridges proven equal (canonical form) to the statement: construct ≡ [vals[v.id] if v.id∈vals else (default(v) if callable "
    "else (lower bound if integer dtype else nan)) for v in variables]; variable_indices ≡ columns with bounds (0,1) for BOOL, the "
    "others for INT (case split on the dtype, so the two index sets partition the columns); from_list / to_list contracts; "
    "A / b / to_linalg: FULL → ASPACE drops column 0 and variables[0] together."
)
NOT_DECIDED = []
MIN_OBLIGATIONS = 9
ASSUMPTIONS = []
