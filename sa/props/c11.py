"""C11 - see EXPLANATION."""
from ._common import TRUSTED_E2

TRUSTED = TRUSTED_E2 + ["numpy semantics of the array idioms at the anchors (elementwise arithmetic, boolean masks, sum/min/max(axis), delete/append, argsort)"]
ASSUMPTIONS = ["variable bounds within the library's default integer range (no overflow)"]


def obligations(ctx):
    return ctx.contract_obligations("C11")

EXPLANATION = (
    "Each reduction kernel is proven equal (canonical form) to its formula: A_min = lo·[A>0]·A + hi·[A<0]·A; reducable_rows = "
    "(Σ_cols A_min >= b) i.e. the minimum of the row's lhs over the box reaches b; reducable_columns_approx = where(lb==ub, lb, nan) "
    "of the tightened bounds; reduce_columns: b' = b - Σ_fixed A[:,j]·v_j (value, not indicator), fixed columns deleted, kept "
    "variables = [True]+isnan(mask) in FULL space, index unchanged; reduce_rows: rows and index filtered by the same mask; the "
    "fixpoint loop merges only into still-undecided positions (full_cols[isnan(full_cols)], full_rows[full_rows==0]), order "
    "columns -> rows, recomputation on the reduced matrix. formula ⇒ property: three one-line lemmas (redundant row, forced "
    "column, substitution) in DESIGN §4/C11."
)
NOT_DECIDED = ["loop termination / exit conditions beyond their presence", "dtype overflow"]
MIN_OBLIGATIONS = 10
