"""C16 - JSON round trip preserves meaning, explicit ids and defaults (E3 serialisation agreement + contracts)."""
import ast

from .. import terms as T
from ..frontend import AnalysisError, dotted
from ..obligation import Ob
from ._common import TRUSTED_E2

EXPLANATION = (
    "(a) every to_json / from_json of the 13 classes reachable from the two registries is proven equal (canonical form) to the "
    "documented JSON format; (b) E3 agreement rules between sibling writers and readers: key agreement (every key a writer can "
    "emit is read by the reader of that class and vice versa), id guard (every path that emits 'id' is guarded by not generated_id), "
    "omission/default agreement (variable bounds (0,1); AtLeast sign omitted iff it equals the constructor's default expression; "
    "value default 1), registry exhaustiveness (every type name any to_json can emit resolves by __name__ in plog.from_json's default "
    "class_map and in StingyConfigurator.from_json's list to a class of that family with a from_json), state coverage (every "
    "component of the constructor-established state is read by the writer or re-derived by the constructor)."
)
TRUSTED = TRUSTED_E2 + ["json.dumps/loads are inverse on the emitted structures",
                        "negate(negate(p)) ≈ p for the conditions written by Imply/XNor (discharged by C05's obligations, modulo its known finding)"]
ASSUMPTIONS = ["validated models (C10)"]
NOT_DECIDED = []
MIN_OBLIGATIONS = 40

PLOG = "puan.logic.plog"
CC = "puan.modules.configurator"
FAMILY_ROOT = "puan.logic.plog.AtLeast"


def _keys_written(term):
    keys = set()
    for x in T.walk(term):
        if x[0] == 'dict':
            for kv in x[1]:
                if kv[0] == 'kw' and kv[1][0] == 'const' and isinstance(kv[1][1], str):
                    keys.add(kv[1][1])
        if x[0] == 'setitem' and x[2][0] == 'const' and isinstance(x[2][1], str):
            keys.add(x[2][1])
    return keys


def _keys_deleted(term):
    return {x[2][1] for x in T.walk(term) if x[0] == 'delitem' and x[2][0] == 'const'}


def _keys_read(term, pname):
    keys = set()
    for x in T.walk(term):
        if x[0] == 'call' and x[1] == ('attr', T.V(pname), 'get') and x[2] and x[2][0][0] == 'const':
            keys.add(x[2][0][1])
        if x[0] == 'sub' and x[1] == T.V(pname) and x[2][0] == 'const':
            keys.add(x[2][1])
        if x[0] == 'cmp' and x[1] in ('In', 'NotIn') and x[3] == T.V(pname) and x[2][0] == 'const':
            keys.add(x[2][1])
    return keys


def _class_list(program, module, node):
    """qualified class names in a list literal of names"""
    out = []
    for e in node.elts:
        q = program.qualify(module, dotted(e))
        out.append(q)
    return out


def _resolve_list(P, fi, node, depth=0):
    """the list / tuple display an expression denotes: the display itself, or a name bound once to one in the function, its
    class or its module"""
    if isinstance(node, (ast.List, ast.Tuple)):
        return node
    if depth > 3:
        return None
    # the built-in registry as the fallback of an optional parameter: `[...] if p is None else p`, `p or [...]`, `p if p else [...]`
    if isinstance(node, ast.IfExp):
        for br in (node.body, node.orelse):
            r = _resolve_list(P, fi, br, depth + 1)
            if r is not None:
                return r
    if isinstance(node, ast.BoolOp) and isinstance(node.op, ast.Or):
        for br in node.values:
            r = _resolve_list(P, fi, br, depth + 1)
            if r is not None:
                return r
    if isinstance(node, ast.Name):
        binds = [n.value for n in ast.walk(fi.node) if isinstance(n, ast.Assign) and len(n.targets) == 1
                 and isinstance(n.targets[0], ast.Name) and n.targets[0].id == node.id] + \
                [n.value for n in ast.walk(fi.node) if isinstance(n, ast.AnnAssign) and n.value is not None
                 and isinstance(n.target, ast.Name) and n.target.id == node.id]
        if len(binds) == 1:
            return _resolve_list(P, fi, binds[0], depth + 1)
        if not binds and node.id in fi.module.assigns:
            return _resolve_list(P, fi, fi.module.assigns[node.id], depth + 1)
    if isinstance(node, ast.Attribute) and isinstance(node.value, ast.Name) and fi.cls is not None \
            and node.value.id in ("self", "cls", fi.cls.name):
        for c in P.mro(fi.cls):
            if node.attr in c.class_attrs:
                return _resolve_list(P, fi, c.class_attrs[node.attr], depth + 1)
    return None


def registries(ctx):
    P = ctx.program
    fj = P.func(PLOG + ".from_json")
    a = fj.node.args
    pos = a.posonlyargs + a.args
    r1 = None
    for prm, d in zip(pos[len(pos) - len(a.defaults):], a.defaults):
        if prm.arg == "class_map":
            lst = _resolve_list(P, fj, d)
            if lst is not None:
                r1 = _class_list(P, fj.module, lst)
    sj = P.func(CC + ".StingyConfigurator.from_json")
    r2 = None
    # the class list the configurator hands to plog.from_json (class_map=...), wherever it is bound
    for n in ast.walk(sj.node):
        if isinstance(n, ast.Call):
            for k in n.keywords:
                if k.arg == "class_map":
                    lst = _resolve_list(P, sj, k.value)
                    if lst is not None:
                        r2 = _class_list(P, sj.module, lst)
    if r2 is None:
        for n in ast.walk(sj.node):
            if isinstance(n, ast.Assign) and isinstance(n.value, (ast.List, ast.Tuple)) and len(n.value.elts) >= 5:
                r2 = _class_list(P, sj.module, n.value)
    if r1 is None or r2 is None:
        raise AnalysisError("JSON class registries not found (plog.from_json default class_map / StingyConfigurator.from_json list)")
    return r1, r2


def raw_state_rule(ctx, family):
    """E3.raw-state: a constructor parameter that is handed on to the kernel constructor as a member proposition may be a `str`
    (AtLeast.__init__ accepts ids and turns them into variables in `self.propositions`). An attribute that stores such a
    parameter unconverted (`self.X = param`) holds a str for those calls, so a method invoked on `self.X` later
    (`self.X.to_json()`, `.negate()`, ...) raises AttributeError: the model cannot be serialised."""
    P = ctx.program
    obs = []
    n = 0
    for c in sorted(family, key=lambda c: c.qualname):
        init = c.methods.get("__init__")
        if init is None:
            continue
        t = T.norm(T.FuncLower(P, init).term())
        params = [p for p in init.params[1:]]
        # parameters passed positionally / as *members to a constructor of the family
        member_params = set()
        for x in T.walk(t):
            if x[0] == 'call' and x[1][0] == 'glob' and x[1][1].endswith(".__init__") and x[1][1].rsplit(".", 1)[0] in P.classes:
                for _, v in x[3]:
                    for y in T.walk(v):
                        if y[0] == 'var' and y[1] in params:
                            member_params.add(y[1])
        stored_raw = {}
        for x in T.walk(t):
            if x[0] == 'setattr' and x[1] == T.V(init.params[0]) and x[3][0] == 'var' and x[3][1] in member_params:
                stored_raw[x[2]] = x[3][1]
        for attr_name, prm in sorted(stored_raw.items()):
            users = []
            for m in c.methods.values():
                if m is init:
                    continue
                for node in ast.walk(m.node):
                    if isinstance(node, ast.Call) and isinstance(node.func, ast.Attribute) and isinstance(node.func.value, ast.Attribute) \
                            and isinstance(node.func.value.value, ast.Name) and node.func.value.value.id == "self" \
                            and node.func.value.attr == attr_name:
                        users.append(f"{m.name}: self.{attr_name}.{node.func.attr}()")
            n += 1
            where = f"{init.file}:{init.node.lineno} {init.qualname}"
            if users:
                obs.append(Ob(f"E3.raw-state:{c.qualname}.{attr_name}", "E3.raw-state", where, "violation",
                              f"`self.{attr_name} = {prm}` stores the constructor argument unconverted although it may be a str id "
                              f"(it is handed on as a member proposition); {users[0]} then fails for "
                              f"{c.name}(..., '{prm}' given as str): AttributeError, the model cannot be written",
                              key=f"E3.raw-state:{c.qualname}.{attr_name}"))
            else:
                obs.append(Ob(f"E3.raw-state:{c.qualname}.{attr_name}", "E3.raw-state", where, "ok",
                              f"self.{attr_name} stores `{prm}` as given, and no method is invoked on it"))
    obs.append(Ob("E3.raw-state", "E3.raw-state", f"{len(family)} classes", "ok",
                  f"{n} attributes that store a member-proposition argument as given; methods invoked on them are listed separately"))
    return obs


def sorted_position_rule(ctx, family):
    """E3.sorted-position: the kernel constructor sorts a node's members by id (generated ids are hashes of the definition), so
    `self.propositions[k]` is not a function of the order the constructor was given. A writer that recovers its output from a
    fixed position therefore writes different things for models that differ only in the ids the hash happens to produce."""
    P = ctx.program
    obs = []
    nw = 0
    for c in sorted(family, key=lambda c: c.qualname):
        w = c.methods.get("to_json")
        if w is None:
            continue
        nw += 1
        # do all members the constructor hands to the kernel carry the SAME member list (direct constructions over the same
        # parameter, e.g. Xor = All(AtLeast(1, ps), AtMost(1, ps)))? then `self.propositions[k].propositions` is position-independent
        same_members = False
        init = P.lookup_method(c, "__init__")
        if init is not None:
            it = T.norm(T.FuncLower(P, init).term())
            for x in T.walk(it):
                if x[0] == 'call' and x[1][0] == 'glob' and x[1][1].endswith(".__init__"):
                    for k_, v in x[3]:
                        if k_.startswith('*') and v[0] == 'list' and v[1]:
                            srcs = set()
                            for e in v[1]:
                                if e[0] == 'call' and e[1][0] == 'glob' and e[1][1] in P.classes and dict(e[3]).get('propositions') is not None:
                                    srcs.add(dict(e[3])['propositions'])
                                else:
                                    srcs.add(('opaque', T.show(e)[:40]))
                            same_members = len(srcs) == 1 and next(iter(srcs))[0] == 'var'
        parents = {}
        for node in ast.walk(w.node):
            for ch in ast.iter_child_nodes(node):
                parents[ch] = node
        for node in ast.walk(w.node):
            if isinstance(node, ast.Subscript) and isinstance(node.value, ast.Attribute) and node.value.attr == "propositions" \
                    and isinstance(node.value.value, ast.Name) and node.value.value.id == "self" \
                    and isinstance(node.slice, ast.Constant) and isinstance(node.slice.value, int):
                par = parents.get(node)
                only_members = isinstance(par, ast.Attribute) and par.attr == "propositions"
                if same_members and only_members:
                    obs.append(Ob(f"E3.sorted-position:{w.qualname}", "E3.sorted-position", f"{w.file}:{node.lineno} {w.qualname}", "ok",
                                  f"self.propositions[{node.slice.value}].propositions: every member the constructor builds holds the same member list"))
                    continue
                obs.append(Ob(f"E3.sorted-position:{w.qualname}", "E3.sorted-position", f"{w.file}:{node.lineno} {w.qualname}", "violation",
                              f"{w.qualname} reads self.propositions[{node.slice.value}]: members are sorted by (generated) id, so which "
                              f"member sits there depends on hash values, not on the constructor's arguments, and the members the "
                              f"constructor builds do not hold the same member list. Failing input (before the repair 40b4536): "
                              f"XNor(Any('b','e'), All('c','d'), Xor('a','d')) was written with its members negated and came back "
                              f"false instead of true at a=b=c=d=0, e=1",
                              key=f"E3.sorted-position:{w.qualname}:{node.slice.value}"))
    obs.append(Ob("E3.sorted-position", "E3.sorted-position", f"{nw} writers", "ok",
                  "writers select members by structure or from stored state, never by position in the id-sorted member list "
                  "(violations listed separately)"))
    return obs


def writer_of(P, ci):
    return P.lookup_method(ci, "to_json")


def obligations(ctx):
    P = ctx.program
    obs = ctx.contract_obligations("C16")
    root = P.cls(FAMILY_ROOT)
    family = [c for c in P.subclasses(root)]
    r1, r2 = registries(ctx)
    obs += raw_state_rule(ctx, family)
    obs += sorted_position_rule(ctx, family)
    name_of = lambda q: q.split(".")[-1]
    # ---------------------------------------------------------------- registry exhaustiveness
    for label, reg, classes in (("plog.from_json", r1, [c for c in family if c.module.name == PLOG]),
                                ("StingyConfigurator.from_json", r2, [c for c in family if c.qualname != CC + ".StingyConfigurator"])):
        names = {}
        for q in reg:
            names.setdefault(name_of(q), q)
        where = ctx.loc(PLOG + ".from_json") if label.startswith("plog") else ctx.loc(CC + ".StingyConfigurator.from_json")
        for c in sorted(classes, key=lambda c: c.qualname):
            emitted = c.name          # 'type': self.__class__.__name__  (or the literal of the same name in cc)
            target = names.get(emitted)
            ok = target is not None and target in P.classes and (P.classes[target] is c or c in P.mro(P.classes[target]) or P.classes[target] in P.mro(c)) \
                and P.lookup_method(P.classes[target], "from_json") is not None
            # a configurator class must be read by the configurator class (it carries `default`)
            if ok and label.startswith("Stingy") and c.module.name == CC and target != c.qualname:
                ok = False
            if ok and label.startswith("Stingy") and c.module.name == PLOG and c.name in ("Any", "Xor") :
                # plain pg.Any / pg.Xor written inside a configurator are read by the cc subclass: fine (default absent)
                pass
            obs.append(Ob(f"E3.reg:{label}:{c.qualname}", "E3.registry", where, "ok" if ok else "violation",
                          f"type '{emitted}' resolves to {target}" if ok else
                          f"a {c.qualname} emits type '{emitted}', which {label} cannot resolve to a class of that family "
                          f"(registry names: {sorted(names)})", key=f"E3.reg:{label}:{emitted}"))
        for must in ("variable",):
            ok = must in names
            obs.append(Ob(f"E3.reg:{label}:{must}", "E3.registry", where, "ok" if ok else "violation",
                          f"'{must}' present" if ok else f"'{must}' missing from the registry", key=f"E3.reg:{label}:{must}"))
    # ---------------------------------------------------------------- per class writer / reader agreement
    for c in sorted(family, key=lambda c: c.qualname):
        w = P.lookup_method(c, "to_json")
        r = P.lookup_method(c, "from_json")
        if w is None or r is None:
            obs.append(Ob(f"E3.pair:{c.qualname}", "E3.key-agreement", c.qualname, "violation",
                          "class has no to_json / from_json", key=f"E3.pair:{c.qualname}"))
            continue
        if w.cls is not c and r.cls is not c:
            continue      # inherits both (e.g. ExactlyOne): covered at the defining class
        wt = T.norm(T.FuncLower(P, w).term())
        rt = T.norm(T.FuncLower(P, r).term())
        rp = [p for p in r.params if p not in ("cls", "self")]
        dparam = rp[0] if rp else "data"
        fam_q = {k.qualname for k in family}

        def all_written(fn, depth=0):
            t = T.norm(T.FuncLower(P, fn).term())
            ks = _keys_written(t)
            for x in T.walk(t):      # keys inherited through super().to_json()
                if depth < 5 and x[0] == 'call' and x[1][0] == 'glob' and x[1][1].endswith(".to_json") and x[1][1] in P.functions \
                        and dict(x[3]).get('self') == T.V('self'):
                    ks |= all_written(P.functions[x[1][1]], depth + 1)
            return ks - _keys_deleted(t)
        written = all_written(w)
        written.discard("lower"); written.discard("upper")
        read = _keys_read(rt, dparam)
        for x in T.walk(rt):      # delegation to a base reader of the same family with the same data
            if x[0] == 'call' and x[1][0] == 'glob' and x[1][1].endswith(".from_json") and x[1][1] in P.functions \
                    and x[1][1].rsplit(".", 1)[0] in fam_q and T.V(dparam) in (list(x[2]) + [v for _, v in x[3]]):
                f2 = P.functions[x[1][1]]
                read |= _keys_read(T.norm(T.FuncLower(P, f2).term()), [p for p in f2.params if p not in ("cls", "self")][0])
        # a written key that mirrors a kernel-constructor parameter the class's own constructor does not expose is
        # re-derived by that constructor (e.g. sign for AtMost/All/Any): not a loss
        own_ctor = P.lookup_method(c, "__init__")
        own_params = set(own_ctor.params) | {a.arg for a in own_ctor.node.args.kwonlyargs} if own_ctor else set()
        fixed_by_ctor = {k for k in ("sign", "value") if k not in own_params}
        where = f"{w.file}:{w.node.lineno} {w.qualname} / {r.qualname}"
        ctx.touched |= {w.qualname, r.qualname}
        lost = sorted(map(str, written - read - {"type"} - fixed_by_ctor))
        phantom = sorted(map(str, read - written - {"type"}))
        if lost:
            obs.append(Ob(f"E3.keys:{c.qualname}", "E3.key-agreement", where, "violation",
                          f"keys {lost} are written by {w.qualname} but never read by {r.qualname}: that state is lost in a round trip",
                          key=f"E3.keys:{c.qualname}:lost:{','.join(lost)}"))
        elif phantom:
            obs.append(Ob(f"E3.keys:{c.qualname}", "E3.key-agreement", where, "violation",
                          f"keys {phantom} are read by {r.qualname} but never written by {w.qualname}",
                          key=f"E3.keys:{c.qualname}:phantom:{','.join(phantom)}"))
        else:
            obs.append(Ob(f"E3.keys:{c.qualname}", "E3.key-agreement", where, "ok", f"written = read = {sorted(written)}"))
        # id guard
        if w.cls is c:
            obs.extend(id_guard(ctx, w, wt))
    # variable
    # ---------------------------------------------------------------- omission / default agreement
    obs.extend(omission(ctx))
    obs.extend(state_coverage(ctx))
    return obs


def id_guard(ctx, w, wt):
    """every emission of key 'id' happens under a condition that implies not self.generated_id"""
    out = []
    gen = ('attr', T.V('self'), 'generated_id')

    def walk(t, guards):
        if not T.is_node(t):
            return
        if t[0] == 'if':
            walk(t[1], guards)
            walk(t[2], guards + [(t[1], True)])
            walk(t[3], guards + [(t[1], False)])
            return
        emits = False
        if t[0] == 'dict' and any(kv[0] == 'kw' and kv[1] == T.C('id') for kv in t[1]):
            emits = True
        if t[0] == 'setitem' and t[2] == T.C('id'):
            emits = True
        if emits:
            ok = any((g == gen and pol is False) or (g == ('not', gen) and pol is True) for g, pol in guards)
            out.append(ok)
        for c in T.children(t):
            walk(c, guards)
    walk(wt, [])
    where = f"{w.file}:{w.node.lineno} {w.qualname}"
    if out:
        ok = all(out)
        return [Ob(f"E3.idguard:{w.qualname}", "E3.id-guard", where, "ok" if ok else "violation",
                   f"{len(out)} emission(s) of 'id', all guarded by not generated_id" if ok else
                   f"'id' is emitted on a path that is not guarded by `not self.generated_id` (a generated id would come back as an explicit one)",
                   key=f"E3.idguard:{w.qualname}")]
    return []


def omission(ctx):
    P = ctx.program
    obs = []
    # variable: writer omits bounds iff (0,1); reader default (0,1)
    w = T.canonical(T.FuncLower(P, P.func("puan.variable.to_json")).term())
    r = T.canonical(T.FuncLower(P, P.func("puan.variable.from_json")).term())
    omit = [x for x in T.walk(w) if x[0] == 'if' and any(y[0] == 'delitem' and y[2] == T.C('bounds') for y in T.walk(x[2])) and
            not any(y[0] == 'delitem' for y in T.walk(x[3]))]
    lit01 = ('tuple', (T.C(0), T.C(1)))
    okw = bool(omit) and any(lit01 in list(T.walk(o[1])) for o in omit)
    dflt = [x for x in T.walk(r) if x[0] == 'call' and x[1][0] == 'attr' and x[1][2] == 'get' and x[2] and x[2][0] == T.C('bounds')]
    okr = bool(dflt) and all(len(d[2]) == 2 and d[2][1] == ('dict', (('kw', T.C('lower'), T.C(0)), ('kw', T.C('upper'), T.C(1)))) for d in dflt)
    where = ctx.loc("puan.variable.to_json")
    obs.append(Ob("E3.omit:variable.bounds", "E3.omission-default", where, "ok" if okw and okr else "violation",
                  "bounds omitted iff (0,1); reader default is lower 0 / upper 1" if okw and okr else
                  "writer omission predicate and reader default for `bounds` disagree", key="E3.omit:variable.bounds"))
    # AtLeast sign: omitted iff sign == ctor default(value); reader passes None -> ctor derives the same expression
    wj = T.canonical(T.FuncLower(P, P.func(FAMILY_ROOT + ".to_json")).term())
    ci = T.canonical(T.FuncLower(P, P.func(FAMILY_ROOT + ".__init__")).term())
    emits = []

    def walk(t, guards):
        if not T.is_node(t):
            return
        if t[0] == 'if':
            walk(t[2], guards + [(t[1], True)])
            walk(t[3], guards + [(t[1], False)])
            return
        if t[0] == 'setitem' and t[2] == T.C('sign'):
            emits.append(list(guards))
        if t[0] == 'dict' and any(kv[0] == 'kw' and kv[1] == T.C('sign') for kv in t[1]):
            emits.append(list(guards))
        for c in T.children(t):
            walk(c, guards)
    walk(wj, [])
    # constructor default expression: the value stored in self.sign when the parameter is None
    ctor_default = None
    for x in T.walk(ci):
        if x[0] == 'if' and x[1] == ('cmp', 'Is', T.V('sign'), T.NONE):
            for y in T.walk(x[2]):
                if y[0] == 'setattr' and y[2] == 'sign' and y[3] != T.V('sign'):
                    ctor_default = y[3]
    where = ctx.loc(FAMILY_ROOT + ".to_json")
    if not emits:
        obs.append(Ob("E3.omit:AtLeast.sign", "E3.omission-default", where, "violation",
                      "AtLeast.to_json never writes `sign`: an explicitly signed AtLeast comes back with the default sign",
                      key="E3.omit:AtLeast.sign:never-written"))
    elif ctor_default is None:
        obs.append(Ob("E3.omit:AtLeast.sign", "E3.omission-default", where, "inconclusive", "constructor default of sign not found"))
    else:
        want = T.canonical(T.replace(ctor_default, lambda y: ('attr', T.V('self'), 'value') if y == T.V('value') else None))
        ok = all(any(_is_neq(g, ('attr', T.V('self'), 'sign'), want, pol) for g, pol in gs) or not gs for gs in emits)
        unconditional = any(not gs for gs in emits)
        ok = ok or unconditional
        obs.append(Ob("E3.omit:AtLeast.sign", "E3.omission-default", where, "ok" if ok else "violation",
                      ("sign always written" if unconditional else "sign omitted iff it equals the constructor default "
                       f"`{T.show(want)}` (same expression the reader's constructor re-derives)") if ok else
                      f"sign is omitted under a condition that is not `sign == {T.show(want)}` (the constructor's default)",
                      key="E3.omit:AtLeast.sign"))
    rd = T.canonical(T.FuncLower(P, P.func(FAMILY_ROOT + ".from_json")).term())
    gets = {x[2][0][1]: x for x in T.walk(rd) if x[0] == 'call' and x[1][0] == 'attr' and x[1][2] == 'get' and x[2] and x[2][0][0] == 'const'}
    ctor = [x for x in T.walk(rd) if x[0] == 'call' and x[1] == T.G(FAMILY_ROOT)]
    ok = bool(ctor) and all(dict(c[3]).get('sign') == gets.get('sign') and gets.get('sign') is not None and
                             (len(gets['sign'][2]) == 1 or gets['sign'][2][1] == T.NONE) for c in ctor)
    obs.append(Ob("E3.read:AtLeast.sign", "E3.omission-default", ctx.loc(FAMILY_ROOT + ".from_json"), "ok" if ok else "violation",
                  "reader feeds data.get('sign', None) into sign=" if ok else "reader does not feed `sign` (default None) into the constructor",
                  key="E3.read:AtLeast.sign"))
    return obs


def _is_neq(g, a, b, pol):
    if g[0] == 'cmp' and g[1] in ('NotEq', 'Eq'):
        same = {g[2], g[3]} == {a, b} or (g[2] == a and g[3] == b) or (g[3] == a and g[2] == b)
        return same and ((g[1] == 'NotEq') == pol)
    return False


def state_coverage(ctx):
    """every component of the constructor-established state of AtLeast is read by to_json (or re-derived by a subclass ctor)"""
    P = ctx.program
    # the specified state = attributes the *reference* constructor assigns (derived caches a constructor may add are not state)
    rm, rfi, meta = ctx.contracts.refs[(FAMILY_ROOT + ".__init__", None)]
    state = set()
    for n in ast.walk(rfi.node):
        if isinstance(n, ast.Attribute) and isinstance(n.ctx, ast.Store) and isinstance(n.value, ast.Name) and n.value.id == "self":
            state.add(n.attr)
    wt = T.norm(T.FuncLower(P, P.func(FAMILY_ROOT + ".to_json")).term())
    reads = set()
    for x in T.walk(wt):
        if x[0] == 'attr' and x[1] == T.V('self'):
            reads.add(x[2])
        if x[0] == 'attr' and x[1] == ('attr', T.V('self'), 'variable'):
            reads.add('variable.' + x[2])
    comps = set()
    for s in state:
        if s == 'variable':
            comps |= {'variable.id', 'variable.bounds'}     # a puan.variable: id and bounds (dataclass fields)
        else:
            comps.add(s)
    obs = []
    where = ctx.loc(FAMILY_ROOT + ".to_json")
    for comp in sorted(comps):
        ok = comp in reads
        txt = f"state component `{comp}` is read by the writer" if ok else \
            f"state component `{comp}` of a compound is never written to JSON: All('a', variable=variable('A',(1,1))) comes back with bounds (0,1)"
        obs.append(Ob(f"E3.state:AtLeast.{comp}", "E3.state-coverage", where, "ok" if ok else "violation", txt,
                      key=f"E3.state:{FAMILY_ROOT}.to_json:{comp}"))
    return obs
