"""C06 - partial evaluation and tautology/contradiction flags are sound."""
EXPLANATION = (
    "Decides, for every input at once, that the interval kernel of AtLeast.assume and the equation-bounds helpers are "
    "equal (by canonical form, per sign case) to the closed forms of interval arithmetic: node bounds = "
    "([min(sign*sum) >= value], [max(sign*sum) >= value]); _equation_mm = exact range of a +-1-coefficient sum over the "
    "children's box; tautology iff min - value >= 0; contradiction iff max - value <= -1. Soundness of those closed forms "
    "w.r.t. all completions is the one-line lemma of interval arithmetic (DESIGN §4/C06)."
)
TRUSTED = ["lowering + canonicaliser of sa/terms.py", "axiom: Bounds.lower <= Bounds.upper (obligation E0 on Bounds.__init__)",
           "reference terms in sa/ref/plog.py, sa/ref/core.py"]
ASSUMPTIONS = ["children are acyclic (C10)", "sign in {-1,+1} (established by AtLeast.__init__, checked as an obligation)"]
NOT_DECIDED = []
MIN_OBLIGATIONS = 10


def obligations(ctx):
    return ctx.contract_obligations("C06")
