"""Per-property obligation sets."""
import importlib

from ..frontend import AnalysisError

IDS = ["C01", "C03", "C04", "C05", "C06", "C07", "C08", "C09", "C10", "C11", "C12", "C13", "C14", "C15", "C16",
       "C17", "C18", "C19", "C20"]


def get(pid):
    if pid not in IDS:
        raise AnalysisError(f"no static check for property {pid} (see MANIFEST not_applicable)")
    return importlib.import_module(f"sa.props.{pid.lower()}")
