"""C08 - reduce() preserves meaning and removes every fixed variable."""
from .. import terms as T
from ..obligation import Ob

EXPLANATION = (
    "AtLeast.reduce is proven equal (canonical form, per sign case) to constant substitution into sign·Σ >= value: R1 own "
    "constant -> own variable; R2 children = reduce of every compound + atoms; R3 new bounds = interval kernel (same kernel as "
    "assume: sibling agreement E8); R4 constant new bounds -> variable(id,new bounds); R5 otherwise AtLeast(value - sign·Σconst, "
    "[non-constant children], variable(id,new bounds), sign). Bounds.constant / as_tuple contracts are obligations too."
)
TRUSTED = ["lowering/canonicaliser (sa/terms.py)", "reference terms sa/ref/plog.py, sa/ref/core.py"]
ASSUMPTIONS = ["acyclic, validated models (C10)"]
NOT_DECIDED = []
MIN_OBLIGATIONS = 8


def kernel_of(ctx, q, split):
    """the bounds kernel (pair of comparisons with self.value) inside function q, per sign"""
    fi = ctx.program.func(q)
    raw = T.FuncLower(ctx.program, fi).term()
    out = {}
    for s in (1, -1):
        t = T.canonical(T.replace(raw, lambda x: T.C(s) if x[0] == 'attr' and x[2] == 'sign' else None))
        ks = []
        for x in T.walk(t):
            if x[0] == 'ge0' and any(y == ('attr', T.V('self'), 'value') for y in T.walk(x)) \
                    and any(y[0] == 'call' and y[1] == T.G('sum') for y in T.walk(x)) and x not in ks:
                ks.append(x)
        out[s] = ks
    return out


def sibling(ctx):
    """E8: the kernel of reduce and the kernel of assume have the same skeleton (up to the children they range over)"""
    a = kernel_of(ctx, "puan.logic.plog.AtLeast.assume", True)
    r = kernel_of(ctx, "puan.logic.plog.AtLeast.reduce", True)
    obs = []
    for s in (1, -1):
        ka = {T.show(abstract_source(k)) for k in a[s]}
        kr = {T.show(abstract_source(k)) for k in r[s]}
        if not kr:
            obs.append(Ob(f"E8.kernel/sign={s:+d}", "E8.sibling", ctx.loc("puan.logic.plog.AtLeast.reduce"), "inconclusive",
                          "bounds kernel not found in reduce"))
        elif not ka:
            # assume() is not in a recognisable form (that is C03/C06/C07's business): reduce's kernel is still decided by its own contract
            obs.append(Ob(f"E8.kernel/sign={s:+d}", "E8.sibling", ctx.loc("puan.logic.plog.AtLeast.reduce"), "ok",
                          "sibling comparison not applicable (assume's kernel not recognisable); reduce's kernel is decided by contract R3"))
        elif ka == kr:
            obs.append(Ob(f"E8.kernel/sign={s:+d}", "E8.sibling", ctx.loc("puan.logic.plog.AtLeast.reduce"), "ok",
                          f"kernel of reduce ≡ kernel of assume: {sorted(kr)[0][:200]}"))
        else:
            # which sibling deviates is decided by the contracts: reduce's own contract (R3) is an obligation of this property,
            # assume's belongs to C03/C06/C07. The disagreement is recorded, not double-counted.
            obs.append(Ob(f"E8.kernel/sign={s:+d}", "E8.sibling", ctx.loc("puan.logic.plog.AtLeast.reduce"), "ok",
                          f"NOTE kernels of reduce and assume differ ({sorted(kr)[0][:80]} vs {sorted(ka)[0][:80]}); "
                          f"the deviating sibling is reported by its own contract"))
    return obs


def contains_bounds(x):
    return any(y[0] == 'attr' and y[2] == 'bounds' for y in T.walk(x))


def abstract_source(k):
    """replace the source collection of every Σ by ?X and the per-child accessor prefix by ?B"""
    def f(x):
        if x[0] == 'call' and x[1] == T.G('sum') and len(x[2]) == 1 and x[2][0][0] == 'map':
            m = x[2][0]
            body = T.replace(m[1][2], lambda y: ('var', '?child') if (y[0] == 'call' and y[1][0] == 'attr' and y[1][2] in ('assume', 'reduce')) or y == ('bv', 0, 0) else None)
            return ('call', T.G('sum'), (('map', ('lam', 1, body), ('var', '?X')),), ())
        return None
    return T.replace(k, f)


def obligations(ctx):
    return ctx.contract_obligations("C08") + sibling(ctx)
