"""C17 - base64 round trip reproduces propositions and configured polyhedra exactly (E3 positional agreement + contracts)."""
import ast

from .. import terms as T
from ..obligation import Ob
from ._common import TRUSTED_E2

EXPLANATION = (
    "AtLeast.to_b64 hands `self` (not a rebuilt copy) to pickle.dumps and from_b64 is the inverse pipeline (contracts); no model "
    "class customises pickling (__getstate__/__reduce__/__reduce_ex__/__slots__/__setstate__: zero instances allowed unless they "
    "cover every constructor-assigned attribute); ge_polyhedron_config.to_b64 writes a list whose i-th element is the array itself "
    "(i=0) or the attribute named like the i-th parameter of __new__ that from_b64's positional splat binds it to "
    "(input_array, default_prio_vector, variables, index, dtype), and the list covers every attribute the __new__ chain attaches to "
    "the array (variables, index, default_prio_vector); __array_finalize__ carries variables and index. Inverse-ness of "
    "pickle/gzip/base64 is a library fact."
)
TRUSTED = TRUSTED_E2 + ["pickle.loads∘dumps, gzip.decompress∘compress, b64decode∘b64encode are identities"]
ASSUMPTIONS = []
NOT_DECIDED = ["inverse-ness of pickle / gzip / base64 (standard library)"]
MIN_OBLIGATIONS = 12

CFG = "puan.ndarray.ge_polyhedron_config"
PICKLE_HOOKS = {"__getstate__", "__setstate__", "__reduce__", "__reduce_ex__", "__getnewargs__", "__getnewargs_ex__", "__copyreg__"}


def rules(ctx):
    P = ctx.program
    obs = []
    # 1. to_b64 of AtLeast pickles self
    tb = T.norm(T.FuncLower(P, P.func("puan.logic.plog.AtLeast.to_b64")).term())
    dumps = [x for x in T.walk(tb) if x[0] == 'call' and x[1] == T.G('pickle.dumps')]
    ok = bool(dumps) and all(d[2] and d[2][0] == T.V('self') for d in dumps)
    obs += ctx.settle_roles("C17", "puan.logic.plog.AtLeast.to_b64", [
        Ob("E3.dumps-self", "E3.dataflow", ctx.loc("puan.logic.plog.AtLeast.to_b64"), "ok" if ok else "violation",
           "pickle.dumps receives self" if ok else f"pickle.dumps receives {[T.show(d[2][0])[:80] for d in dumps if d[2]]} (class / flags of the object are lost)",
           key="E3.dumps-self")], [])
    # 2. no custom pickling hooks on model / polyhedron classes
    hooks = []
    for c in P.classes.values():
        for h in PICKLE_HOOKS:
            if h in c.methods:
                hooks.append(f"{c.qualname}.{h}")
        if "__slots__" in c.class_attrs:
            hooks.append(f"{c.qualname}.__slots__")
    obs.append(Ob("E3.pickle-hooks", "E3.pickle-hooks", "puan/**", "ok" if not hooks else "violation",
                  "no class customises pickling (state = full __dict__)" if not hooks else
                  f"custom pickling hooks {hooks}: coverage of every constructor-assigned attribute is not established",
                  key="E3.pickle-hooks:" + ",".join(sorted(hooks))))
    # 2b. no instance-level state beyond what the constructors assign may enter pickle.dumps(self):
    #     memoisation on the instance (cached_property) or attributes first created by a query would be pickled too, and
    #     ndarray-subclass values lose their attached attributes (variables / index / default_prio_vector) in a pickle
    from ..effects import memo_sites, Effects, CTOR_NAMES
    fam = {c.qualname for c in P.subclasses(P.cls("puan.logic.plog.AtLeast"))}
    extra_state = []
    for site in memo_sites(P):
        fi = site[0]
        if fi is not None and fi.cls is not None and fi.cls.qualname in fam and site[1].endswith("cached_property"):
            extra_state.append((fi.loc(), f"{fi.qualname} is a cached_property: its value is stored in the instance and pickled with it"))
    ctor_attrs = set()
    for cq in fam:
        for m in P.classes[cq].methods.values():
            if m.name in CTOR_NAMES:
                for n in ast.walk(m.node):
                    if isinstance(n, ast.Attribute) and isinstance(n.ctx, ast.Store) and isinstance(n.value, ast.Name) and n.value.id == "self":
                        ctor_attrs.add(n.attr)
    ctor_attrs |= {"prio"}
    for cq in sorted(fam):
        for m in P.classes[cq].methods.values():
            if m.name in CTOR_NAMES:
                continue
            for n in ast.walk(m.node):
                new_attr = None
                if isinstance(n, ast.Attribute) and isinstance(n.ctx, ast.Store) and isinstance(n.value, ast.Name) and n.value.id == "self" \
                        and n.attr not in ctor_attrs:
                    new_attr = n.attr
                if isinstance(n, ast.Subscript) and isinstance(n.ctx, ast.Store) and ast.unparse(n.value) == "self.__dict__":
                    new_attr = "__dict__[…]"
                if isinstance(n, ast.Call) and ast.unparse(n.func) in ("self.__dict__.update", "self.__dict__.setdefault", "setattr", "object.__setattr__") \
                        and (ast.unparse(n.func).startswith("self.") or (n.args and ast.unparse(n.args[0]) == "self")):
                    new_attr = ast.unparse(n)[:60]
                if new_attr:
                    extra_state.append((f"{m.file}:{n.lineno} {m.qualname}", f"query stores instance state `{new_attr}` that no constructor assigns; it is pickled by to_b64"))
    for where, text in extra_state:
        obs.append(Ob(f"E3.pickle-state:{where.split()[-1]}", "E3.pickle-state", where, "violation", text + " (the unpacked object is not the object a fresh construction gives; attached array attributes are lost)",
                      key=f"E3.pickle-state:{where.split()[-1]}"))
    if not extra_state:
        obs.append(Ob("E3.pickle-state", "E3.pickle-state", f"{len(fam)} model classes", "ok",
                      "instances carry only constructor-assigned attributes (no instance caches enter the pickle)"))
    # 3. positional agreement list[i] <-> __new__ parameter i
    new = P.func(CFG + ".__new__")
    params = new.params[1:]
    t = T.norm(T.FuncLower(P, P.func(CFG + ".to_b64")).term())
    lists = [d[2][0] for d in T.walk(t) if d[0] == 'call' and d[1] == T.G('pickle.dumps') and d[2]]
    where = ctx.loc(CFG + ".to_b64")
    if not lists or lists[0][0] != 'list':
        obs.append(Ob("E3.b64-list", "E3.positional", where, "inconclusive", "pickle.dumps argument is not a list literal"))
    else:
        elems = lists[0][1]
        for i, prm in enumerate(params):
            want = T.V('self') if i == 0 else ('attr', T.V('self'), prm)
            got = elems[i] if i < len(elems) else None
            ok = got == want
            obs.append(Ob(f"E3.b64-pos:{i}:{prm}", "E3.positional", where, "ok" if ok else "violation",
                          f"element {i} = {T.show(want)} feeds parameter `{prm}`" if ok else
                          f"element {i} of the pickled list is `{T.show(got) if got else 'missing'}`, but from_b64 binds it to parameter `{prm}` of __new__",
                          key=f"E3.b64-pos:{i}:{prm}"))
        if len(elems) > len(params):
            obs.append(Ob("E3.b64-extra", "E3.positional", where, "violation", f"{len(elems)} elements for {len(params)} parameters", key="E3.b64-extra"))
    # from_b64 splats positionally into the class
    t = T.norm(T.FuncLower(P, P.func(CFG + ".from_b64")).term())
    ok = any(x[0] == 'call' and x[1] == T.G(CFG) and any(a[0] == 'star' for a in x[2]) for x in T.walk(t))
    obs += ctx.settle_roles("C17", CFG + ".from_b64", [
        Ob("E3.b64-splat", "E3.positional", ctx.loc(CFG + ".from_b64"), "ok" if ok else "violation",
           "from_b64 = ge_polyhedron_config(*loaded list)" if ok else "from_b64 does not splat the loaded list into ge_polyhedron_config",
           key="E3.b64-splat")], [])
    # 4. coverage: attributes attached by the __new__ chain are in the list
    attached = set()
    cls = P.cls(CFG)
    for c in P.mro(cls):
        f = c.methods.get("__new__")
        if f is None:
            continue
        returned = {r.value.id for r in ast.walk(f.node) if isinstance(r, ast.Return) and isinstance(r.value, ast.Name)}
        for n in ast.walk(f.node):
            if isinstance(n, ast.Attribute) and isinstance(n.ctx, ast.Store) and isinstance(n.value, ast.Name) and n.value.id in returned:
                attached.add(n.attr)
    listed = {e[2] for e in (lists[0][1] if lists and lists[0][0] == 'list' else ()) if e[0] == 'attr' and e[1] == T.V('self')}
    for a in sorted(attached):
        ok = a in listed
        obs.append(Ob(f"E3.b64-cover:{a}", "E3.coverage", where, "ok" if ok else "violation",
                      f"attached attribute `{a}` is serialised" if ok else f"attribute `{a}` attached by __new__ is not in the pickled list: lost in a round trip",
                      key=f"E3.b64-cover:{a}"))
    if not attached:
        obs.append(Ob("E3.b64-cover", "E3.coverage", where, "inconclusive", "no attributes attached in the __new__ chain found"))
    return obs


def obligations(ctx):
    return ctx.contract_obligations("C17") + rules(ctx)
