"""C15 - solver bridge: objectives, solutions and ids stay aligned (contracts + E4 index-space pairing + eager call in try)."""
from .. import terms as T
from ..obligation import Ob
from ._common import TRUSTED_E2

EXPLANATION = (
    "Whole-function contracts of AtLeast.solve, ge_polyhedron_config.select / _vectors_from_prios, StingyConfigurator.select / "
    "leafs / ge_polyhedron, variable_ndarray.construct, ge_polyhedron.A / b. In addition role rules on the lowered terms: (E4) at "
    "every call of the user solver the first argument is the FULL polyhedron (built with active=True in solve()), the objectives are "
    "built in ASPACE (A.construct(obj, default 0) / _vectors_from_prios over A.variables) and the returned vector is zipped with "
    "A.variables of the same polyhedron; None → {}; (must-pass-through) in select() the solver call is evaluated eagerly inside "
    "the try whose handler raises InfeasibleError (not under a lambda, not after the try). Optimality of what an exact solver "
    "returns is NOT decided."
)
TRUSTED = TRUSTED_E2
ASSUMPTIONS = ["the solver callable honours the documented contract (vector over the columns of polyhedron.A)"]
NOT_DECIDED = ["optimality / feasibility of solver answers (C02 territory, compiled solver)"]
MIN_OBLIGATIONS = 14

SOLVE = "puan.logic.plog.AtLeast.solve"
SELECT = "puan.ndarray.ge_polyhedron_config.select"


def find_calls(t, pred, under_lambda=False, after_try=False, in_try=False, out=None):
    out = [] if out is None else out
    if not T.is_node(t):
        return out
    if pred(t):
        out.append((t, under_lambda, after_try, in_try))
    k = t[0]
    if k == 'lam':
        find_calls(t[2], pred, True, after_try, in_try, out)
        return out
    if k == 'after_try':
        find_calls(t[1], pred, under_lambda, True, False, out)
        return out
    if k == 'intry':        # a value computed inside the try body and used later
        find_calls(t[1], pred, under_lambda, False, True, out)
        return out
    if k == 'pretry':       # a value computed before the try
        find_calls(t[1], pred, under_lambda, False, False, out)
        return out
    if k == 'try':
        find_calls(t[1], pred, under_lambda, after_try, True, out)
        for h in t[2]:
            find_calls(h, pred, under_lambda, after_try, False, out)
        return out
    for c in T.children(t):
        find_calls(c, pred, under_lambda, after_try, in_try, out)
    return out


def _solution_zips(t):
    """zip(<sequence of variables>, <solution vector>) nodes: the second component is the first element of a solver result
    triple (a lambda parameter named solution*, or t[0] of the mapped triple)"""
    out = []
    for x in T.walk(t):
        if x[0] == 'zip' and len(x[1]) == 2:
            b = x[1][1]
            if (b[0] == 'var' and b[1].startswith('solution')) or (b[0] == 'sub' and b[2] == T.C(0) and b[1][0] == 'var'):
                if any(y[0] == 'attr' and y[2] == 'variables' for y in T.walk(x[1][0])):
                    out.append(x)
    return out


def _src_of(x):
    """the sequence a (possibly mapped) zip component ranges over"""
    while x[0] == 'map':
        x = x[2]
    return x


def rules(ctx):
    """The role rules are implied by the whole-function contracts of solve() / select(): they are evaluated on the code's term
    AND on the reference's term (where they must hold), and a shape the rules do not recognise in code that is proven
    equivalent to its reference is settled by that equivalence (Ctx.settle_roles)."""
    P = ctx.program
    obs = []
    for q, fn in ((SOLVE, solve_rules), (SELECT, select_rules)):
        code = fn(T.norm(T.FuncLower(P, P.func(q)).term()), ctx.loc(q))
        ref = fn(ctx.ref_term(q), ctx.loc(q))
        obs += ctx.settle_roles("C15", q, code, ref)
    return obs


def solve_rules(t, where):
    obs = []
    # --- solve(): custom solver branch
    calls = find_calls(t, lambda x: x[0] == 'call' and x[1] == T.V('solver'))
    if not calls:
        obs.append(Ob("E4.solve.call", "E4.index-space", where, "inconclusive", "no call of the user solver found in solve()"))
    for c, ul, at, it in calls:
        args = list(c[2])
        poly = args[0] if args else None
        okp = poly is not None and poly[0] == 'call' and poly[1][0] == 'attr' and poly[1][2] == 'to_ge_polyhedron' and \
            dict(poly[3]).get('active', (poly[2][0] if poly[2] else None)) == T.C(True)
        obs.append(Ob("E4.solve.polyhedron", "E4.index-space", where, "ok" if okp else "violation",
                      "solver receives the FULL polyhedron of to_ge_polyhedron(active=True)" if okp else
                      f"solver receives `{T.show(poly)[:160]}` - not the asserted (active=True) polyhedron", key="E4:solve:polyhedron"))
        objs = args[1] if len(args) > 1 else None
        oko = False
        if objs is not None and objs[0] == 'map' and objs[1][0] == 'lam':
            b = objs[1][2]
            if b[0] == 'call' and b[1][0] == 'attr' and b[1][2] == 'construct' and b[1][1] == ('attr', poly, 'A'):
                dflt = b[2][1] if len(b[2]) > 1 else dict(b[3]).get('default_value')
                oko = dflt is not None and dflt[0] == 'lam' and dflt[2] == T.C(0)
        obs.append(Ob("E4.solve.objectives", "E4.index-space", where, "ok" if oko else "violation",
                      "objectives = polyhedron.A.construct(objective, default 0): ASPACE of the same polyhedron" if oko else
                      f"objectives `{T.show(objs)[:200]}` are not A.construct(objective, lambda _: 0) of the solver's polyhedron",
                      key="E4:solve:objectives"))
        # result pairing: zip(polyhedron.A.variables, solution)
        zips = _solution_zips(t)
        okz = bool(zips) and all(_src_of(z[1][0]) == ('attr', ('attr', poly, 'A'), 'variables') for z in zips)
        obs.append(Ob("E4.solve.pairing", "E4.index-space", where, "ok" if okz else "violation",
                      "solution zipped with polyhedron.A.variables (ASPACE, same polyhedron)" if okz else
                      f"solution is paired with {[T.show(z[1][0])[:100] for z in zips]} instead of the A.variables of the solver's polyhedron",
                      key="E4:solve:pairing"))
    return obs


def select_rules(t, where):
    obs = []
    # --- select(): eager solver call inside try; FULL polyhedron; pairing
    calls = find_calls(t, lambda x: x[0] == 'call' and x[1] == T.V('solver'))
    if not calls:
        obs.append(Ob("E4.select.call", "E4.index-space", where, "inconclusive", "no call of the user solver found in select()"))
    for c, ul, at, it in calls:
        ok = it and not ul and not at
        obs.append(Ob("MPT.select.eager", "must-pass-through", where, "ok" if ok else "violation",
                      "solver(...) is evaluated eagerly inside the try that converts exceptions to InfeasibleError" if ok else
                      f"solver(...) call is {'under a lambda (lazy) ' if ul else ''}{'after the try ' if at else ''}{'outside any try' if not it else ''}: "
                      f"a solver exception escapes the InfeasibleError handler", key="MPT:select:eager"))
        okp = bool(c[2]) and c[2][0] == T.V('self')
        obs.append(Ob("E4.select.polyhedron", "E4.index-space", where, "ok" if okp else "violation",
                      "solver receives self (FULL polyhedron)" if okp else f"solver receives `{T.show(c[2][0])[:100] if c[2] else None}`",
                      key="E4:select:polyhedron"))
    handlers = [h for x in T.walk(t) if x[0] == 'try' for h in x[2]]
    okh = bool(handlers) and all(any(y[0] == 'raise' and y[1] == T.G('puan.ndarray.InfeasibleError') for y in T.walk(h)) for h in handlers)
    obs.append(Ob("MPT.select.handler", "must-pass-through", where, "ok" if okh else "violation",
                  "every handler raises InfeasibleError" if okh else "a handler of select() does not raise InfeasibleError", key="MPT:select:handler"))
    zips = _solution_zips(t)
    want = ('attr', ('attr', T.V('self'), 'A'), 'variables')
    okz = bool(zips) and all(_src_of(z[1][0]) == want for z in zips)
    obs.append(Ob("E4.select.pairing", "E4.index-space", where, "ok" if okz else "violation",
                  "solution zipped with the ids of self.A.variables" if okz else
                  f"solution is paired with {[T.show(z[1][0])[:120] for z in zips]}", key="E4:select:pairing"))
    nones = [x for x in T.walk(t) if x[0] == 'if' and x[1][0] == 'cmp' and x[1][1] == 'IsNot' and x[1][3] == T.NONE and x[3] == ('dict', ())]
    obs.append(Ob("E2.select.none", "E2.none-empty", where, "ok" if nones else "violation",
                  "a None solution becomes {}" if nones else "no `… if solution is not None else {}` found", key="E2:select:none"))
    return obs


def obligations(ctx):
    return ctx.contract_obligations("C15") + rules(ctx)
