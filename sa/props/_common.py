"""Shared texts."""
TRUSTED_E2 = ["lowering + canonicaliser (sa/terms.py): combinator table for maz 0.0.6 / functools / operator / itertools, "
              "polynomial and comparison normal forms, axioms listed in DESIGN §3.3",
              "hand-written reference terms (sa/ref/*.py), written from the property's mathematics"]
