"""C07 - assuming values is equivalent to evaluating with them."""
from .. import terms as T
from ..obligation import Ob

EXPLANATION = (
    "The obligations are the hypotheses of the compositionality proof (DESIGN §4/C07): H1 a node's new bounds are the "
    "monotone interval kernel of its children's new bounds; H2 own-id override and constant short-circuit; H3 leaves: "
    "variable.assume ≡ variable(id, fixed[id]) if named else self; H4 a child handed to the result constructor is the "
    "assumed child itself - it is never replaced by its bare variable (a child that became constant already *is* its "
    "variable by H2). H1-H3 by contract equivalence of AtLeast.assume / variable.assume / variable.__init__ / "
    "variable.evaluate; H4 additionally as a dataflow rule on the propositions argument of the result constructor."
)
TRUSTED = ["lowering/canonicaliser (sa/terms.py)", "reference terms sa/ref/plog.py, sa/ref/core.py"]
ASSUMPTIONS = ["acyclic, validated models (C10)", "assumed values lie within the variables' bounds"]
NOT_DECIDED = []
MIN_OBLIGATIONS = 8

ASSUME = "puan.logic.plog.AtLeast.assume"


def h4(ctx):
    """every AtLeast(...) constructed by assume() takes as children the assumed children, unprojected"""
    fi = ctx.program.func(ASSUME)
    t = T.canonical(T.FuncLower(ctx.program, fi).term())
    want_body = T.call(('attr', ('bv', 0, 0), 'assume'), [T.V(fi.params[1])]) if len(fi.params) > 1 else None
    obs = []
    n = 0
    for x in T.walk(t):
        if x[0] == 'call' and x[1] == T.G('puan.logic.plog.AtLeast') and not x[2]:
            kw = dict(x[3])
            ch = kw.get('propositions')
            if ch is None:
                continue
            n += 1
            ok = ch[0] == 'map' and ch[1][0] == 'lam' and ch[1][2] == want_body and ch[2] == ('attr', T.V('self'), 'propositions')
            if ok:
                obs.append(Ob(f"E2.H4:{n}", "E2.collapse", ctx.loc(ASSUME), "ok",
                              "children of the result = [c.assume(d) for c in self.propositions] (no projection to .variable)"))
            else:
                proj = [y for y in T.walk(ch) if y[0] == 'attr' and y[2] == 'variable']
                st = "violation" if proj or ch[0] in ('map', 'filter', 'concat', 'attr') else "inconclusive"
                obs.append(Ob(f"E2.H4:{n}", "E2.collapse", ctx.loc(ASSUME), st,
                              f"children handed to the result constructor are `{T.show(ch)[:300]}`: a sub-proposition may lose its "
                              f"definition (replaced / dropped) although its new bounds are not constant",
                              key=f"E2.collapse:{ASSUME}"))
    if n == 0:
        obs.append(Ob("E2.H4", "E2.collapse", ctx.loc(ASSUME), "inconclusive", "assume() constructs no AtLeast(...) result"))
    return obs


def obligations(ctx):
    return ctx.contract_obligations("C07") + h4(ctx)
