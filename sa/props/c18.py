"""C18 - extending a configurator equals building it with the extra rule."""
from ..obligation import Ob
from . import c09

EXPLANATION = (
    "StingyConfigurator.add is proven equal (canonical form) to: raise if proposition.id ∈ {q.id | q ∈ self.propositions} "
    "(guard over all children, dominating the construction), else StingyConfigurator(*(self.propositions + [p]), id=self.id) - "
    "literally 'constructing it with the old rules followed by the new one, keeping the id'. E1: add() writes no pre-existing "
    "object (`+` builds a fresh list; `.append` would be an effect). StingyConfigurator.__init__ ≡ All(*rules, variable=id) and "
    "All.__init__ ≡ AtLeast(|set(children)|, children) are obligations too."
)
TRUSTED = ["lowering/canonicaliser (sa/terms.py)", "effect analysis (sa/effects.py)"]
ASSUMPTIONS = ["constructor determinism: equal arguments give indistinguishable configurators (C09 for the queries)"]
NOT_DECIDED = []
MIN_OBLIGATIONS = 4
ADD = "puan.modules.configurator.StingyConfigurator.add"


def obligations(ctx):
    obs = ctx.contract_obligations("C18")
    eng, roots = c09.analyse(ctx.program, [ADD])
    mine = {k: v for k, v in roots.items() if ADD in v[1]}
    if not mine:
        obs.append(Ob("E1.pure:add", "E1.pure", ctx.loc(ADD), "ok", "add() has an empty may-write set on self / its argument"))
    for k, (e, ents, chain) in sorted(mine.items()):
        where = f"{e.file}:{e.line} {e.qualname}" if e is not None else ctx.loc(ADD)
        obs.append(Ob(f"E1:{k}", "E1.effect", where, "violation",
                      f"add() changes the configurator it is called on: {k} (witness {' -> '.join(chain)})", key=f"E1.{k}"))
    return obs
