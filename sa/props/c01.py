"""C01 - logic-to-polyhedron encoding agrees with evaluation (Python side of the bridge)."""
from .. import terms as T
from ..obligation import Ob
from ._common import TRUSTED_E2

EXPLANATION = (
    "Decides the Python side of the bridge only: (1) statement provenance - in every construction of puan_rspy.TheoryPy the "
    "statement of flattened node x is StatementPy(index[x.id], bounds tuple of the node registered under that id, "
    "AtLeastPy([index of every child], bias = -x.value, sign = Positive iff x.sign = +1) or None for leaves), per sign case; "
    "(2) sibling agreement of the two builders; (3) column re-attachment: result = hstack(b as column, A rows), variables = "
    "[support variable] + [node of the statement index the Rust side reports for each column], active/reduced forwarded; "
    "(4) the [b | A] split of ge_polyhedron. Whether the inequalities emitted by the compiled encoder hold iff the model is "
    "true is NOT decided (no source)."
)
TRUSTED = TRUSTED_E2 + ["puan_rspy (compiled, no source): TheoryPy/StatementPy/AtLeastPy semantics as documented by the anchor"]
ASSUMPTIONS = ["validated model (C10)", "evaluation semantics (C03)"]
NOT_DECIDED = ["satisfaction of the emitted inequalities by the evaluated assignment (compiled puan_rspy)",
               "which definition a shared id gets inside flatten()'s set (run-time hash/eq; see C10)"]
MIN_OBLIGATIONS = 10

BUILDERS = ["puan.logic.plog.AtLeast._to_pyrs_theory", "puan.logic.plog.AtLeast.to_ge_polyhedron"]


def theory_args(ctx, q):
    fi = ctx.program.func(q)
    t = T.canonical(T.FuncLower(ctx.program, fi).term())
    return [x[2][0] if x[2] else None for x in T.walk(t) if x[0] == 'call' and x[1] == T.G('puan_rspy.TheoryPy')]


def obligations(ctx):
    obs = ctx.contract_obligations("C01")
    # every TheoryPy construction in the package is one of the two known builders
    sites = []
    import ast as _ast
    from ..frontend import dotted as _dotted
    for q, fi in ctx.program.functions.items():
        # syntactic construction sites (helpers inlined by the IR do not count as sites of their callers)
        n = sum(1 for x in _ast.walk(fi.node) if isinstance(x, _ast.Call) and _dotted(x.func)
                and ctx.program.qualify(fi.module, _dotted(x.func)) == 'puan_rspy.TheoryPy')
        if n:
            sites.append((q, n))
    for q, n in sites:
        st = "ok" if q in BUILDERS else "violation"
        obs.append(Ob(f"E2.site:{q}", "E2.theory-site", ctx.loc(q), st,
                      f"{n} construction(s) of puan_rspy.TheoryPy" + ("" if st == "ok" else " outside the two specified builders (no contract covers it)"),
                      key=f"E2.theory-site:{q}"))
    if not sites:
        obs.append(Ob("E2.site", "E2.theory-site", "puan/logic/plog/__init__.py", "inconclusive", "no TheoryPy construction found"))
    # E8: the builders agree
    args = {q: theory_args(ctx, q) for q in BUILDERS}
    flat = [a for v in args.values() for a in v]
    if len(flat) >= 2 and all(a == flat[0] for a in flat):
        obs.append(Ob("E8.builders", "E8.sibling", ctx.loc(BUILDERS[1]), "ok", "both TheoryPy statement lists have the same canonical form"))
    elif len(flat) >= 2:
        d = T.diff(flat[0], flat[1])
        obs.append(Ob("E8.builders", "E8.sibling", ctx.loc(BUILDERS[1]), "violation",
                      "the two TheoryPy builders disagree: " + "; ".join(f"{T.show(a)[:120]} vs {T.show(b)[:120]}" for _, a, b in d[:3]),
                      key="E8.sibling:theory-builders"))
    elif len(flat) == 1:
        obs.append(Ob("E8.builders", "E8.sibling", ctx.loc(BUILDERS[1]), "ok",
                      "a single TheoryPy construction is shared by both entry points (agreement by construction)"))
    else:
        obs.append(Ob("E8.builders", "E8.sibling", ctx.loc(BUILDERS[1]), "inconclusive", "no TheoryPy construction found"))
    return obs
