"""E0 - integrity of the specified surface ("who may define" rules).

The contract engine decides each *existing* specified function. These rules close the gaps around it:
  * override   : a class of the model / array family defines a method whose name is specified for a base class (e.g. a new
                 `All.assume`) but no reference covers that definition - the specified behaviour would silently change for the
                 subclass;
  * hooks      : attribute / call interception on classes that own specified functions (__getattr__, __getattribute__,
                 __setattr__, __delattr__, __call__ metaclass tricks, __class_getitem__ excluded);
  * patching   : module-level (import-time) assignment to an attribute of a class / function of the package, or setattr on it
                 (the one existing instance, json.JSONEncoder.default = _default, is an external class and is allowed);
  * constants  : module constants used as axioms (default integer range, Sign values) have their specified values.
"""
import ast

from .frontend import dotted, AnalysisError
from .obligation import Ob
from . import terms as T

HOOKS = {"__getattr__", "__getattribute__", "__setattr__", "__delattr__", "__get__", "__set__", "__init_subclass__",
         "__instancecheck__", "__subclasscheck__", "__prepare__"}

# dunder methods each class defines on the specified tree; a *new* dunder of the sensitive kind changes how instances compare,
# hash, iterate, test for truth, pickle or are constructed without touching any specified function
EXPECTED_DUNDERS = {
    "puan.Bounds": {"__init__", "__hash__", "__iter__", "__eq__"}, "puan.variable": {"__init__", "__hash__", "__lt__", "__eq__"},
    "puan.logic.plog.AtLeast": {"__init__", "__repr__", "__lt__", "__eq__", "__hash__"},
    "puan.logic.plog.AtMost": {"__init__"}, "puan.logic.plog.All": {"__init__"}, "puan.logic.plog.Any": {"__init__"},
    "puan.logic.plog.Imply": {"__init__"}, "puan.logic.plog.Xor": {"__init__"}, "puan.logic.plog.XNor": {"__init__"},
    "puan.logic.plog.Not": {"__new__"}, "puan.modules.configurator.Any": {"__init__"}, "puan.modules.configurator.Xor": {"__init__"},
    "puan.modules.configurator.StingyConfigurator": {"__init__"},
    "puan.ndarray.variable_ndarray": {"__new__", "__array_finalize__"}, "puan.ndarray.ge_polyhedron": {"__new__"},
    "puan.ndarray.ge_polyhedron_config": {"__new__"},
}
CLASS_DECORATORS = {"puan.Bounds": ["dataclasses.dataclass"], "puan.variable": ["dataclasses.dataclass"]}
BUILTIN_NAMES = {"sum", "map", "filter", "sorted", "list", "len", "min", "max", "any", "all", "zip", "dict", "set", "tuple", "range",
                 "enumerate", "isinstance", "issubclass", "hash", "getattr", "hasattr", "setattr", "callable", "type", "str", "int", "float",
                 "abs", "iter", "next", "reversed", "bool", "frozenset", "super", "id", "round", "print", "object", "property",
                 "staticmethod", "classmethod", "Exception", "ValueError", "KeyError", "TypeError"}
EXPECTED_IMPORTS = {"np": "numpy", "numpy": "numpy", "pr": "puan_rspy", "pg": "puan.logic.plog", "pnd": "puan.ndarray", "puan": "puan",
                    "maz": "maz", "functools": "functools", "operator": "operator", "itertools": "itertools", "math": "math", "sys": "sys",
                    "pickle": "pickle", "gzip": "gzip", "base64": "base64", "graphlib": "graphlib", "hashlib": "hashlib",
                    "dataclasses": "dataclasses", "typing": "typing", "Counter": "collections.Counter", "json": "json",
                    "more_itertools": "more_itertools", "enum": "enum"}

CONSTANTS = {
    "puan.default_min_int": "numpy.iinfo(numpy.int16).min",
    "puan.default_max_int": "numpy.iinfo(numpy.int16).max",
    "puan.default_int_bounds": "(default_min_int, default_max_int)",
}
ENUMS = {"puan.Sign.POSITIVE": 1, "puan.Sign.NEGATIVE": -1, "puan.Dtype.BOOL": "bool", "puan.Dtype.INT": "int"}


DISPLAY_DUNDERS = {"__repr__", "__str__", "__format__"}
# every place outside raise statements, diagnostics and display methods where the package applies str() / repr() / format() / an
# f-string to a value (confirmed by reading: the value of a json entry; the concatenated member ids, the value and the sign in
# AtLeast._id_generator). A new site changes the set and re-arms the rule for display methods.
STRINGIFICATION_SITES = {("puan/__init__.py", "str(v)"),
                         ("puan/logic/plog/__init__.py", "str(value)"), ("puan/logic/plog/__init__.py", "str(sign)"),
                         ("puan/logic/plog/__init__.py", "str(''.join(itertools.chain(map(operator.attrgetter('id'), filter(lam"[:40])}


def _stringification_sites(P):
    from .terms import _observational
    sites = set()
    # functions that only serve display methods (every mention of their name is inside a display method or another such helper)
    defs = [(m, n) for m in P.modules.values() for n in ast.walk(m.tree) if isinstance(n, ast.FunctionDef)]
    display = {id(n) for _, n in defs if n.name in DISPLAY_DUNDERS}
    changed = True
    while changed:
        changed = False
        inside = set()
        for _, n in defs:
            if id(n) in display:
                inside |= {id(x) for x in ast.walk(n)}
        for m, n in defs:
            if id(n) in display or n.name.startswith("__"):
                continue
            own = {id(x) for x in ast.walk(n)}
            uses = [x for mm in P.modules.values() for x in ast.walk(mm.tree)
                    if ((isinstance(x, ast.Name) and x.id == n.name) or (isinstance(x, ast.Attribute) and x.attr == n.name)) and id(x) not in own]
            if uses and all(id(x) in inside for x in uses):
                display.add(id(n))
                changed = True
    for m in P.modules.values():
        skip = set()
        for n in ast.walk(m.tree):
            if isinstance(n, ast.Raise) or (isinstance(n, ast.Expr) and isinstance(n.value, ast.Call) and _observational(n.value)) or \
                    (isinstance(n, ast.FunctionDef) and id(n) in display) or \
                    (isinstance(n, ast.Expr) and isinstance(n.value, ast.Constant)):
                skip |= {id(x) for x in ast.walk(n)}
        for n in ast.walk(m.tree):
            if id(n) in skip:
                continue
            if isinstance(n, ast.JoinedStr) or (isinstance(n, ast.Call) and isinstance(n.func, ast.Name) and n.func.id in ("str", "repr", "format")) \
                    or (isinstance(n, ast.Call) and isinstance(n.func, ast.Attribute) and n.func.attr == "format"):
                sites.add((m.relpath, ast.unparse(n)[:40]))
    return sites


def _transparent_override(P, m, base):
    """the override only forwards its own parameters to the method it overrides (same decorators, no effects)"""
    try:
        if [d for d in m.decorators if d] != [d for d in base.decorators if d] or m.params != base.params:
            return False
        T.PROGRAM = P
        t = T.norm(T.FuncLower(P, m).term())
        if t[0] != 'ret' or t[2] or t[1][0] != 'call' or t[1][1] != T.G(base.qualname) or t[1][2]:
            return False
        return dict(t[1][3]) == {p_: T.V(p_) for p_ in m.params} and len(t[1][3]) == len(m.params)
    except Exception:
        return False


def obligations(ctx, pid):
    P = ctx.program
    K = ctx.contracts
    specified = {q for (q, v) in K.refs if pid in K.refs[(q, v)][2].get("props", [])}
    from . import props as _props
    try:
        specified |= set(getattr(_props.get(pid), "PROTECTED", []))      # functions decided by a dedicated analysis (e.g. negate)
    except Exception:
        pass
    spec_all = {q for (q, v) in K.refs}
    touched = {q for q in ctx.touched if q in P.functions}
    scope_funcs = specified | touched
    classes = {P.functions[q].cls.qualname for q in scope_funcs if q in P.functions and P.functions[q].cls is not None}
    obs = []
    # attribute names the specified functions of this property read (attribute access / hasattr / getattr)
    read_names0 = set()
    for q in specified:
        fi0 = P.functions.get(q)
        if fi0 is None:
            continue
        for n in ast.walk(fi0.node):
            if isinstance(n, ast.Attribute) and isinstance(n.ctx, ast.Load):
                read_names0.add(n.attr)
            elif isinstance(n, ast.Call) and isinstance(n.func, ast.Name) and n.func.id in ("getattr", "hasattr") and len(n.args) >= 2 \
                    and isinstance(n.args[1], ast.Constant) and isinstance(n.args[1].value, str):
                read_names0.add(n.args[1].value)
            elif isinstance(n, ast.Call) and dotted(n.func) in ("operator.attrgetter", "operator.methodcaller") and n.args \
                    and isinstance(n.args[0], ast.Constant) and isinstance(n.args[0].value, str):
                read_names0.update(n.args[0].value.split("."))
    # ---- functions decided by a dedicated analysis of their body (no whole-function contract): what wraps the body counts too
    try:
        protected = list(getattr(_props.get(pid), "PROTECTED", []))
    except Exception:
        protected = []
    for q in protected:
        fi = P.functions.get(q)
        if fi is None:
            raise AnalysisError(f"protected function {q} not found")
        decs = [ast.unparse(d) for d in fi.node.decorator_list]
        if decs:
            obs.append(Ob(f"E0.decorator:{q}", "E0.decorator", fi.loc(), "violation",
                          f"{q} is wrapped by decorator(s) {decs}: the analysis of its body no longer describes what a call does "
                          f"(caching / wrapping changes results across calls or inputs)", key=f"E0.decorator:{q}:{','.join(decs)}"))
        else:
            obs.append(Ob(f"E0.decorator:{q}", "E0.decorator", fi.loc(), "ok", "no decorator wraps the analysed body"))
    # ---- overrides of specified methods that no reference covers
    n_checked = 0
    for q in sorted(specified):
        fi = P.functions.get(q)
        if fi is None or fi.cls is None:
            continue
        for sub in P.subclasses(fi.cls, strict=True):
            m = sub.methods.get(fi.name)
            if m is None:
                continue
            n_checked += 1
            covered = any(k[0] == m.qualname for k in K.refs) or m.qualname in specified
            if not covered and _transparent_override(P, m, fi):
                continue            # def m(self, ...): return super().m(...)  - same behaviour
            if not covered:
                obs.append(Ob(f"E0.override:{m.qualname}", "E0.override", f"{m.file}:{m.node.lineno} {m.qualname}", "violation",
                              f"{m.qualname} overrides the specified method {q} and is not covered by any reference: the behaviour "
                              f"specified for {fi.cls.name}.{fi.name} no longer holds for {sub.name} objects",
                              key=f"E0.override:{m.qualname}"))
    obs.append(Ob("E0.override", "E0.override", f"{len(specified)} specified functions", "ok",
                  f"{n_checked} overriding definitions in subclasses, all covered by references"))
    # ---- class hierarchy and dataclass fields of the classes owning specified functions
    nh = 0
    for rm in K.ref_modules:
        for cname, bases in rm.class_bases.items():
            cq = rm.target + "." + cname
            if cq not in classes and not any(c in classes for c in [cq]):
                # also protect classes that only inherit specified behaviour (e.g. ExactlyOne)
                ci0 = P.classes.get(cq)
                if ci0 is None or not any(b.qualname in classes for b in P.mro(ci0)):
                    continue
            ci = P.classes.get(cq)
            if ci is None:
                obs.append(Ob(f"E0.hierarchy:{cq}", "E0.hierarchy", cq, "violation", f"specified class {cq} no longer exists", key=f"E0.hierarchy:{cq}:missing"))
                continue
            nh += 1
            got = [b for b in ci.base_names]
            if got != bases:
                obs.append(Ob(f"E0.hierarchy:{cq}", "E0.hierarchy", f"{ci.module.relpath}:{ci.node.lineno} {cq}", "violation",
                              f"bases of {cq} are {got}, specified {bases}: inherited (specified) behaviour resolves differently",
                              key=f"E0.hierarchy:{cq}:{','.join(got)}"))
            fields = [b.target.id for b in ci.node.body if isinstance(b, ast.AnnAssign) and isinstance(b.target, ast.Name)]
            want = rm.class_fields.get(cname, [])
            if want and fields != want and pid in ("C16", "C17"):      # only serialisation depends on the field list
                obs.append(Ob(f"E0.fields:{cq}", "E0.hierarchy", f"{ci.module.relpath}:{ci.node.lineno} {cq}", "violation",
                              f"dataclass fields of {cq} are {fields}, specified {want} (dataclasses.asdict / generated methods depend on them)",
                              key=f"E0.fields:{cq}:{','.join(fields)}"))
    obs.append(Ob("E0.hierarchy", "E0.hierarchy", f"{nh} classes", "ok", "declared bases / dataclass fields agree with the specification (violations listed separately)"))
    # ---- class-level attributes that specified functions read (hasattr / getattr / attribute access) but no specification declares
    read_names = set()
    for q in specified:
        fi = P.functions.get(q)
        if fi is None:
            continue
        for n in ast.walk(fi.node):
            if isinstance(n, ast.Attribute):
                read_names.add(n.attr)
            elif isinstance(n, ast.Call) and isinstance(n.func, ast.Name) and n.func.id in ("getattr", "hasattr") and len(n.args) >= 2 \
                    and isinstance(n.args[1], ast.Constant) and isinstance(n.args[1].value, str):
                read_names.add(n.args[1].value)
            elif isinstance(n, ast.Call) and dotted(n.func) in ("operator.attrgetter", "operator.methodcaller") and n.args \
                    and isinstance(n.args[0], ast.Constant) and isinstance(n.args[0].value, str):
                read_names.update(n.args[0].value.split("."))
    declared = {}
    for rm in K.ref_modules:
        for cname, fields in rm.class_fields.items():
            declared[rm.target + "." + cname] = set(fields)
    nca = 0
    seen_ca = set()
    for cq in sorted(classes):
        ci = P.classes[cq]
        for c in P.mro(ci) + P.subclasses(ci, strict=True):
            for name in c.class_attrs:
                nca += 1
                if name in declared.get(c.qualname, set()) or name.startswith("__"):
                    continue
                if T.named_class_constant(P, c, name) is not None:
                    continue            # a named constant: every read is replaced by its literal in the terms that are compared
                if name in read_names and (c.qualname, name) not in seen_ca:
                    seen_ca.add((c.qualname, name))
                    obs.append(Ob(f"E0.class-attr:{c.qualname}.{name}", "E0.class-attr", f"{c.module.relpath}:{c.node.lineno} {c.qualname}", "violation",
                                  f"class-level attribute {c.qualname}.{name} is not part of the specification but `{name}` is read "
                                  f"(attribute access / hasattr / getattr) by functions specified for this property: every instance now has it",
                                  key=f"E0.class-attr:{c.qualname}.{name}"))
    obs.append(Ob("E0.class-attr", "E0.class-attr", f"{len(classes)} classes", "ok", f"{nca} class-level attributes checked against the names the specified functions read"))
    # ---- new sensitive dunder methods, class keywords (metaclass=...), class decorators
    nd = 0
    for cq in sorted(classes | {c.qualname for q in classes for c in P.subclasses(P.classes[q])} | {c.qualname for q in classes for c in P.mro(P.classes[q])}):
        ci = P.classes[cq]
        nd += 1
        have = {m for m in ci.methods if m.startswith("__") and m.endswith("__")}
        extra = sorted(have - EXPECTED_DUNDERS.get(cq, set()) - {"__doc__"})
        if set(extra) & DISPLAY_DUNDERS and _stringification_sites(P) == STRINGIFICATION_SITES:
            # how an object prints matters only where the package turns values into text; those sites are known (frozen below)
            # and take ids / numbers, never a proposition or an array
            extra = [m for m in extra if m not in DISPLAY_DUNDERS]
        for m in extra:
            fi = ci.methods[m]
            obs.append(Ob(f"E0.dunder:{fi.qualname}", "E0.new-dunder", f"{fi.file}:{fi.node.lineno} {fi.qualname}", "violation",
                          f"{fi.qualname} is a new special method: instances of {ci.name} now compare / hash / iterate / test for truth / "
                          f"pickle / get constructed differently although no specified function changed", key=f"E0.dunder:{fi.qualname}"))
        if ci.node.keywords:
            kws = [k.arg for k in ci.node.keywords]
            obs.append(Ob(f"E0.class-kw:{cq}", "E0.hierarchy", f"{ci.module.relpath}:{ci.node.lineno} {cq}", "violation",
                          f"class {cq} is declared with keywords {kws} (metaclass / __init_subclass__ arguments): class creation is customised",
                          key=f"E0.class-kw:{cq}"))
        decs = [ast.unparse(d) for d in ci.node.decorator_list]
        if decs != CLASS_DECORATORS.get(cq, []):
            obs.append(Ob(f"E0.class-deco:{cq}", "E0.hierarchy", f"{ci.module.relpath}:{ci.node.lineno} {cq}", "violation",
                          f"class decorators of {cq} are {decs}, specified {CLASS_DECORATORS.get(cq, [])}", key=f"E0.class-deco:{cq}:{','.join(decs)}"))
    obs.append(Ob("E0.new-dunder", "E0.new-dunder", f"{nd} classes", "ok", "special methods, class keywords and class decorators agree with the specification (violations listed separately)"))
    # ---- shadowing of builtins / standard aliases at module or class level
    sh = []
    scope_modules = {P.functions[q].module.name for q in scope_funcs if q in P.functions}
    for m in P.modules.values():
        if m.name not in scope_modules:
            continue
        for name in list(m.functions) + list(m.classes) + list(m.assigns):
            if name in BUILTIN_NAMES:
                sh.append((m.relpath, f"{m.name}.{name} shadows the builtin `{name}` for every function of the module"))
        for alias, target in m.imports.items():
            if alias in BUILTIN_NAMES:
                sh.append((m.relpath, f"import binds `{alias}` (= {target}) over the builtin in {m.name}"))
            if alias in EXPECTED_IMPORTS and target != EXPECTED_IMPORTS[alias]:
                sh.append((m.relpath, f"`{alias}` is bound to `{target}` in {m.name}; the analysis (and the references) read it as `{EXPECTED_IMPORTS[alias]}`"))
    for ci in P.classes.values():
        if ci.module.name not in scope_modules:
            continue
        for name in ci.class_attrs:
            if name in BUILTIN_NAMES:
                sh.append((ci.module.relpath, f"class attribute {ci.qualname}.{name} shadows a builtin name"))
    for rel, text in sh:
        obs.append(Ob(f"E0.shadow:{text[:60]}", "E0.shadowing", rel, "violation", text, key=f"E0.shadow:{text[:80]}"))
    if not sh:
        obs.append(Ob("E0.shadowing", "E0.shadowing", f"{len(P.modules)} modules", "ok", "no module-level binding shadows a builtin or re-targets a standard alias"))
    # ---- attribute hooks
    bad = []
    for cq in sorted(classes):
        ci = P.classes[cq]
        for c in P.mro(ci):
            for h in HOOKS:
                if h in c.methods:
                    bad.append(f"{c.qualname}.{h}")
    for b in sorted(set(bad)):
        obs.append(Ob(f"E0.hook:{b}", "E0.hooks", b, "violation",
                      f"{b} intercepts attribute access on a class that owns specified functions; per-function contracts no longer "
                      f"describe its behaviour", key=f"E0.hook:{b}"))
    obs.append(Ob("E0.hooks", "E0.hooks", f"{len(classes)} classes", "ok", "no attribute-interception hooks on classes owning specified functions")
               if not bad else obs[-1])
    # ---- import-time patching of package classes / functions
    patches = []
    for m in P.modules.values():
        for st in m.tree.body:
            targets = []
            if isinstance(st, ast.Assign):
                targets = st.targets
            elif isinstance(st, (ast.AugAssign, ast.AnnAssign)):
                targets = [st.target]
            for tg in targets:
                if isinstance(tg, ast.Attribute):
                    base = dotted(tg.value)
                    qb = P.qualify(m, base) if base else None
                    if qb in P.classes or qb in P.functions:
                        if qb in P.functions and tg.attr == "default" and qb == "puan._default":
                            continue        # existing: _default.default = JSONEncoder().default (function attribute, not behaviour)
                        patches.append((m.relpath, st.lineno, f"{qb}.{tg.attr}"))
            if isinstance(st, ast.Expr) and isinstance(st.value, ast.Call) and dotted(st.value.func) == "setattr" and st.value.args:
                base = dotted(st.value.args[0])
                qb = P.qualify(m, base) if base else None
                if qb in P.classes or qb in P.functions:
                    patches.append((m.relpath, st.lineno, f"setattr({qb}, ...)"))
            # class bodies assigning over a specified method name after its def, or module-level rebinding of a specified function
            if isinstance(st, ast.Assign):
                for tg in st.targets:
                    if isinstance(tg, ast.Name) and (m.name + "." + tg.id) in spec_all:
                        patches.append((m.relpath, st.lineno, f"rebinding of specified function {m.name}.{tg.id}"))
    for q, fi in P.functions.items():
        for n in ast.walk(fi.node):
            tgt = None
            if isinstance(n, ast.Attribute) and isinstance(n.ctx, (ast.Store, ast.Del)):
                base = dotted(n.value)
                qb = P.qualify(fi.module, base) if base and base.split(".")[0] not in fi.params else None
                if qb in P.classes and not (fi.cls is not None and base in ("cls",)):
                    tgt = f"{qb}.{n.attr} assigned inside {q}"
            elif isinstance(n, ast.Call) and dotted(n.func) in ("setattr", "delattr") and n.args:
                base = dotted(n.args[0])
                qb = P.qualify(fi.module, base) if base and base.split(".")[0] not in fi.params else None
                if qb in P.classes:
                    tgt = f"setattr({qb}, ...) inside {q}"
            if tgt:
                patches.append((fi.module.relpath, n.lineno, tgt))
    for ci in P.classes.values():
        names = [n for n in ci.node.body]
        defined = {}
        for n in ci.node.body:
            if isinstance(n, (ast.FunctionDef, ast.AsyncFunctionDef)):
                if n.name in defined and (n.name in read_names0 or (ci.qualname + "." + n.name) in specified):
                    patches.append((ci.module.relpath, n.lineno, f"second definition of {ci.qualname}.{n.name} in the class body"))
                defined[n.name] = n
            elif isinstance(n, ast.Assign):
                for tg in n.targets:
                    if isinstance(tg, ast.Name) and (tg.id in defined or (ci.qualname + "." + tg.id) in spec_all):
                        patches.append((ci.module.relpath, n.lineno, f"class-body rebinding of {ci.qualname}.{tg.id}"))
    for m in P.modules.values():
        seen = {}
        for st in m.tree.body:
            if isinstance(st, (ast.FunctionDef, ast.ClassDef)):
                if st.name in seen:
                    patches.append((m.relpath, st.lineno, f"second definition of {m.name}.{st.name}"))
                seen[st.name] = st
    fam_classes = set(classes)
    for cq in list(classes):
        fam_classes |= {c.qualname for c in P.mro(P.classes[cq])} | {c.qualname for c in P.subclasses(P.classes[cq])}
    scope_mods = {P.functions[q].module.relpath for q in scope_funcs if q in P.functions}
    specified_names = {q for q in specified}

    def in_scope(rel, what):
        # a patch / duplicate matters for this property if it names a class of its family, a specified function, or sits in a
        # module that holds specified functions and patches something of the package by name
        return any(c in what for c in fam_classes) or any(q in what for q in specified_names) or \
            (rel in scope_mods and ("setattr(" in what or "second definition of" in what and any(what.split()[-1].startswith(m) for m in ())))
    patches = [(rel, line, what) for rel, line, what in patches if in_scope(rel, what)]
    # ---- a method / property that shadows an attribute the constructors store on the instance
    for cq in sorted(fam_classes):
        ci = P.classes[cq]
        stored = set()
        for c in P.mro(ci) + P.subclasses(ci):
            for m in c.methods.values():
                for n in ast.walk(m.node):
                    if isinstance(n, ast.Attribute) and isinstance(n.ctx, ast.Store) and isinstance(n.value, ast.Name) and n.value.id in ("self", "arr", "negated", "inner"):
                        stored.add(n.attr)
        for name, m in ci.methods.items():
            if name in stored and name in read_names0:
                patches.append((m.file, m.node.lineno, f"{m.qualname} is a class-level member with the name of an attribute the constructors store on instances ({name}): it shadows / intercepts that state"))
    for rel, line, what in patches:
        obs.append(Ob(f"E0.patch:{what}", "E0.patching", f"{rel}:{line}", "violation",
                      f"import-time patching: {what}; the function bodies analysed are not the behaviour that runs", key=f"E0.patch:{what}"))
    if not patches:
        obs.append(Ob("E0.patching", "E0.patching", f"{len(P.modules)} modules", "ok", "no import-time patching / duplicate definitions of package classes or functions"))
    # ---- late-binding captures (a closure / lazy iterator that captures an iteration variable and outlives the iteration)
    lb = []
    for q in sorted(specified):
        fi = P.functions.get(q)
        if fi is not None:
            lb += [(fi, n, v) for n, v in late_binding(fi.node)]
    for fi, n, v in lb:
        obs.append(Ob(f"E0.late-binding:{fi.qualname}:{v}", "E0.late-binding", f"{fi.file}:{n.lineno} {fi.qualname}", "violation",
                      f"a lambda / lazy iterator captures the iteration variable `{v}` and is not consumed inside the iteration: when it is "
                      f"evaluated later every instance sees the last value of `{v}` (Python closures bind late)",
                      key=f"E0.late-binding:{fi.qualname}:{v}"))
    if not lb:
        obs.append(Ob("E0.late-binding", "E0.late-binding", f"{len(specified)} specified functions", "ok",
                      "no closure or lazy iterator captures an iteration variable beyond its iteration"))
    # ---- a lazy iterator where a sized / truth-valued sequence is needed (the IR treats map(...) like list(map(...)))
    lz = []
    for q in sorted(specified | {f.qualname for f in P.functions.values() if f.qualname not in spec_all and f.module.name in {P.functions[x].module.name for x in specified if x in P.functions}}):
        fi = P.functions.get(q)
        if fi is not None:
            lz += [(fi, n, what) for n, what in lazy_misuse(fi.node)]
    for fi, n, what in lz:
        obs.append(Ob(f"E0.lazy:{fi.qualname}:{what}", "E0.lazy-iterator", f"{fi.file}:{n.lineno} {fi.qualname}", "violation",
                      f"{what}: an iterator object is always true and has no len(); the analysed terms treat it like the list of "
                      f"its elements, so this use is not what they describe", key=f"E0.lazy:{fi.qualname}:{what}"))
    if not lz:
        obs.append(Ob("E0.lazy-iterator", "E0.lazy-iterator", f"{len(specified)} specified functions and the helpers of their modules", "ok",
                      "no lazy iterator (map / filter / zip / generator / itertools.*) is used as a truth value or passed to len()"))
    # ---- identity comparison with an integer-valued constant (`x is Sign.NEGATIVE`, `x is 1`): the values compared are often plain
    #      ints (negate() builds signs as -1*self.sign, JSON gives ints), for which identity with an enum member is False
    ec_all = P.enum_constants()
    idn = []
    for q in sorted(scope_funcs):
        fi = P.functions.get(q)
        if fi is None:
            continue
        for n in ast.walk(fi.node):
            if isinstance(n, ast.Compare) and any(isinstance(o, (ast.Is, ast.IsNot)) for o in n.ops):
                for side in [n.left] + list(n.comparators):
                    val = None
                    if isinstance(side, ast.Constant) and isinstance(side.value, int) and not isinstance(side.value, bool):
                        val = side.value
                    else:
                        d = dotted(side)
                        if d:
                            qn = P.qualify(fi.module, d)
                            if qn in ec_all and isinstance(ec_all[qn], int) and not isinstance(ec_all[qn], bool):
                                val = qn
                    if val is not None:
                        idn.append((fi, n, val))
    for fi, n, val in idn:
        obs.append(Ob(f"E0.identity:{fi.qualname}:{val}", "E0.identity-int", f"{fi.file}:{n.lineno} {fi.qualname}", "violation",
                      f"`{ast.unparse(n)[:70]}` compares by identity with the integer-valued constant {val}: equal values that are plain "
                      f"ints (signs after negate(), values read from JSON) are not identical to it", key=f"E0.identity:{fi.qualname}:{val}"))
    if not idn:
        obs.append(Ob("E0.identity-int", "E0.identity-int", f"{len(scope_funcs)} functions", "ok",
                      "no identity comparison with an integer-valued constant"))
    # ---- itertools.groupby over a sequence that is not sorted by the grouping key: it merges *adjacent* equal keys only, so equal
    #      keys that are apart form separate groups (collected into a dict, the later group silently replaces the earlier one)
    gb, ngb = [], 0
    gb_scope = {f.qualname for f in P.functions.values() if f.module.name in {P.functions[x].module.name for x in scope_funcs if x in P.functions}}
    for q in sorted(scope_funcs | gb_scope):          # (helpers of the same modules included: a new helper is not yet in anyone's scope)
        fi = P.functions.get(q)
        if fi is None:
            continue
        for n in ast.walk(fi.node):
            if isinstance(n, ast.Call) and (dotted(n.func) or "").split(".")[-1] == "groupby" and n.args:
                ngb += 1
                key = n.args[1] if len(n.args) > 1 else next((k.value for k in n.keywords if k.arg == "key"), None)
                src = n.args[0]
                srt = src if isinstance(src, ast.Call) and (dotted(src.func) or "") == "sorted" else None
                skey = next((k.value for k in srt.keywords if k.arg == "key"), None) if srt is not None else None
                def keyterm(k_):
                    try:
                        return T.canonical(T.Lower(T.Scope(P, fi.module, fi.cls, fi), set()).e(k_))
                    except Exception:
                        return ast.dump(k_)
                same = srt is not None and ((key is None and skey is None) or
                                            (key is not None and skey is not None and
                                             (ast.dump(key) == ast.dump(skey) or keyterm(key) == keyterm(skey))))
                if not same:
                    gb.append((fi, n))
    for fi, n in gb:
        obs.append(Ob(f"E0.groupby:{fi.qualname}", "E0.groupby-unsorted", f"{fi.file}:{n.lineno} {fi.qualname}", "violation",
                      f"`{ast.unparse(n)[:90]}` groups a sequence that is not `sorted(..., key=<the same key>)`: itertools.groupby merges "
                      f"adjacent equal keys only, so items with equal keys that are apart end up in separate groups (and in a dict the "
                      f"later group replaces the earlier one)", key=f"E0.groupby:{fi.qualname}"))
    if not gb:
        obs.append(Ob("E0.groupby-unsorted", "E0.groupby-unsorted", f"{len(scope_funcs)} functions, {ngb} groupby calls", "ok",
                      "every itertools.groupby call groups a sequence sorted by the same key"))
    # ---- constants used as axioms
    pm = P.modules.get("puan")
    if pm is not None:
        for q, src in CONSTANTS.items():
            name = q.split(".")[-1]
            node = pm.assigns.get(name)
            lw = T.Lower(T.Scope(P, pm), set())
            want = T.canonical(lw.e(ast.parse(src, mode="eval").body))
            got = T.canonical(lw.e(node)) if node is not None else None
            ok = got == want
            obs.append(Ob(f"E0.const:{q}", "E0.constants", f"{pm.relpath} {q}", "ok" if ok else "violation",
                          f"{q} = {src}" if ok else f"{q} is `{T.show(got) if got else 'missing'}`, specified `{src}`", key=f"E0.const:{q}"))
        ec = P.enum_constants()
        for q, v in ENUMS.items():
            ok = ec.get(q) == v
            obs.append(Ob(f"E0.const:{q}", "E0.constants", f"{pm.relpath} {q}", "ok" if ok else "violation",
                          f"{q} = {v!r}" if ok else f"{q} is {ec.get(q)!r}, specified {v!r}", key=f"E0.const:{q}"))
    return obs


EAGER = {"list", "tuple", "set", "frozenset", "sorted", "sum", "any", "all", "min", "max", "dict", "len", "next", "str", "repr",
         "numpy.array", "np.array", "numpy.asarray", "np.asarray", "functools.reduce", "Counter", "collections.Counter", "".join.__name__,
         "numpy.hstack", "numpy.vstack", "numpy.concatenate", "numpy.stack", "integer_ndarray", "boolean_ndarray", "ge_polyhedron"}
LAZY = {"map", "filter", "zip", "itertools.starmap", "itertools.chain", "itertools.chain.from_iterable", "itertools.compress",
        "enumerate", "reversed", "iter", "itertools.islice", "itertools.takewhile", "itertools.dropwhile", "functools.partial",
        "maz.compose", "maz.fnmap", "maz.ifttt", "maz.pospartial", "operator.methodcaller"}


def _free_names(node):
    bound = set()
    if isinstance(node, ast.Lambda):
        a = node.args
        bound = {x.arg for x in a.posonlyargs + a.args + a.kwonlyargs}
        body = node.body
    else:
        body = node
    names = set()
    for n in ast.walk(body):
        if isinstance(n, ast.Name) and isinstance(n.ctx, ast.Load):
            names.add(n.id)
        if isinstance(n, ast.comprehension):
            for t in ast.walk(n.target):
                if isinstance(t, ast.Name):
                    bound.add(t.id)
        if isinstance(n, ast.Lambda) and n is not node:
            bound |= {x.arg for x in n.args.args}
    return names - bound


LAZY_CALLS = {"map", "filter", "zip", "enumerate", "reversed", "iter"}


def _is_lazy(node, lazy_names):
    if isinstance(node, ast.GeneratorExp):
        return True
    if isinstance(node, ast.Name) and node.id in lazy_names:
        return True
    if isinstance(node, ast.Call):
        d = dotted(node.func) or ""
        return d in LAZY_CALLS or d.startswith("itertools.")
    return False


def lazy_misuse(fn):
    """[(node, description)]: a lazy iterator used as a truth value (if / while / not / and / or / conditional expression / bool())
    or passed to len()"""
    # local names bound exactly once, to a lazy expression
    binds = {}
    for n in ast.walk(fn):
        if isinstance(n, ast.Assign) and len(n.targets) == 1 and isinstance(n.targets[0], ast.Name):
            binds.setdefault(n.targets[0].id, []).append(n.value)
        elif isinstance(n, (ast.AugAssign, ast.AnnAssign)) and isinstance(n.target, ast.Name):
            binds.setdefault(n.target.id, []).append(getattr(n, "value", None))
        elif isinstance(n, (ast.For, ast.comprehension)):
            for t in ast.walk(n.target):
                if isinstance(t, ast.Name):
                    binds.setdefault(t.id, []).append(None)
    lazy_names = {k for k, v in binds.items() if len(v) == 1 and v[0] is not None and _is_lazy(v[0], set())}
    out = []
    # a one-shot iterator bound to a name is exhausted by its first consumer: a second use, or a use inside something that is
    # evaluated repeatedly (a lambda, a comprehension element, a loop body), sees it empty
    parents = {}
    for n in ast.walk(fn):
        for c in ast.iter_child_nodes(n):
            parents[id(c)] = n
    for name in sorted(lazy_names):
        uses = [n for n in ast.walk(fn) if isinstance(n, ast.Name) and n.id == name and isinstance(n.ctx, ast.Load)]
        repeated = []
        for u in uses:
            cur, prev = u, None
            while id(cur) in parents:
                prev, cur = cur, parents[id(cur)]
                if isinstance(cur, ast.Lambda):
                    repeated.append(u)
                    break
                if isinstance(cur, (ast.For, ast.While)) and prev in cur.body:
                    repeated.append(u)
                    break
                if isinstance(cur, (ast.ListComp, ast.SetComp, ast.GeneratorExp, ast.DictComp)) and \
                        not (cur.generators and prev is cur.generators[0] and any(x is u for x in ast.walk(cur.generators[0].iter))):
                    repeated.append(u)
                    break
        if repeated:
            out.append((repeated[0], f"the one-shot iterator `{name}` is consumed inside something evaluated repeatedly (lambda / loop / comprehension)"))
        elif len(uses) >= 2:
            out.append((uses[1], f"the one-shot iterator `{name}` is consumed {len(uses)} times"))

    def truth(e, where):
        if _is_lazy(e, lazy_names):
            out.append((e, f"`{ast.unparse(e)[:50]}` used as a truth value in {where}"))
    for n in ast.walk(fn):
        if isinstance(n, (ast.If, ast.While, ast.IfExp)):
            truth(n.test, type(n).__name__.lower())
        elif isinstance(n, ast.UnaryOp) and isinstance(n.op, ast.Not):
            truth(n.operand, "not")
        elif isinstance(n, ast.BoolOp):
            for v in n.values[:-1]:
                truth(v, "and/or")
        elif isinstance(n, ast.Call) and isinstance(n.func, ast.Name) and n.func.id in ("len", "bool") and len(n.args) == 1 \
                and _is_lazy(n.args[0], lazy_names):
            out.append((n, f"`{ast.unparse(n)[:50]}`"))
        elif isinstance(n, ast.Call) and n.args and _is_lazy(n.args[0], lazy_names):
            d = dotted(n.func) or ""
            # numpy does not iterate an iterator: numpy.array(map(...)) is a 0-d object array
            if (d.startswith("numpy.") or d.startswith("np.")) and d.split(".")[-1] not in ("fromiter",) or \
                    d.split(".")[-1] in ("integer_ndarray", "boolean_ndarray", "variable_ndarray", "ge_polyhedron", "ge_polyhedron_config"):
                out.append((n, f"`{ast.unparse(n)[:60]}` hands an iterator to numpy"))
    return out


def late_binding(fn):
    """[(node, variable)] closures / lazy iterators capturing an iteration variable of an enclosing comprehension or for-loop
    without being consumed eagerly inside that iteration."""
    out = []
    parents = {}
    for n in ast.walk(fn):
        for c in ast.iter_child_nodes(n):
            parents[id(c)] = n

    def iteration_vars_of(anc):
        vs = set()
        if isinstance(anc, (ast.ListComp, ast.SetComp, ast.GeneratorExp, ast.DictComp)):
            for g in anc.generators:
                for t in ast.walk(g.target):
                    if isinstance(t, ast.Name):
                        vs.add(t.id)
        elif isinstance(anc, ast.For):
            for t in ast.walk(anc.target):
                if isinstance(t, ast.Name):
                    vs.add(t.id)
        return vs

    for n in ast.walk(fn):
        if not isinstance(n, (ast.Lambda, ast.GeneratorExp)):
            continue
        free = _free_names(n) if isinstance(n, ast.Lambda) else _free_names(ast.Tuple(elts=[n.elt] + [c for g in n.generators for c in g.ifs] +
                                                                                     [g.iter for g in n.generators[1:]], ctx=ast.Load()))
        if isinstance(n, ast.GeneratorExp):
            for g in n.generators:
                for t in ast.walk(g.target):
                    if isinstance(t, ast.Name):
                        free.discard(t.id)
        # climb: is the closure consumed eagerly before we leave the iteration that binds a captured variable?
        cur = n
        consumed = False
        while id(cur) in parents:
            par = parents[id(cur)]
            if isinstance(par, ast.Call) and cur is not par.func:
                name = dotted(par.func) or ""
                if name in EAGER or name.split(".")[-1] in ("array", "join", "tolist"):
                    consumed = True
                elif isinstance(par.func, ast.Lambda) or name not in LAZY:
                    # passed to an unknown callable / called directly: assume it is used now
                    if name not in LAZY:
                        consumed = True
            if isinstance(par, (ast.ListComp, ast.SetComp, ast.GeneratorExp, ast.DictComp, ast.For)):
                inside_elt = True
                if isinstance(par, ast.For):
                    inside_elt = any(cur is b or cur in list(ast.walk(b)) for b in par.body)
                elif isinstance(par, ast.DictComp):
                    inside_elt = cur is par.key or cur is par.value
                else:
                    inside_elt = cur is par.elt
                if inside_elt and not (isinstance(par, ast.GeneratorExp) and False):
                    captured = free & iteration_vars_of(par)
                    if captured and not consumed:
                        # a lazily evaluated generator expression as the comprehension itself is consumed by its consumer; the
                        # hazard is a closure that is *stored* per iteration
                        if isinstance(par, ast.GeneratorExp):
                            # generator elements are produced on demand: the closure is created and typically consumed per step
                            pass
                        else:
                            out.append((n, sorted(captured)[0]))
                            break
            if isinstance(par, (ast.FunctionDef, ast.Lambda)) and par is not n:
                break
            cur = par
    return out
