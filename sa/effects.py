"""E1 - purity / effect / alias analysis (interprocedural, over the AST).

Abstract value of an expression:  AV(own, elem)
  own  = set of roots the object itself may be (or be a view of)
  elem = set of roots that objects reachable *through* it (attributes, elements) may be
A root is a parameter name of the current function, 'GLOBAL:<name>' or 'UNKNOWN'. Fresh objects have own = {}.

Per function summary (fixpoint over the call graph):
  mut   : parameter indices whose object (or something reachable from it) may be written
  glob  : global / class state that may be written
  ret   : parameter indices the result may alias (own) / may reach (elem)
Direct effects are recorded with file:line and a description of the written target.
"""
import ast

from .frontend import dotted, AnalysisError

CTOR_NAMES = {"__init__", "__new__", "__array_finalize__", "__post_init__"}

MUTATORS = {'append', 'extend', 'insert', 'pop', 'remove', 'clear', 'sort', 'reverse', 'update', 'setdefault',
            'add', 'discard', 'fill', 'put', 'itemset', 'resize', 'popitem', 'difference_update',
            'intersection_update', 'symmetric_difference_update', 'appendleft', 'popleft', 'partition', 'byteswap',
            'setflags', 'setfield', '__setitem__', '__setattr__', '__delitem__', '__delattr__', 'cache_clear'}

# externals whose result is a *view* / alias of the first argument (or of the receiver for methods)
VIEW_FUNCS = {'numpy.swapaxes', 'numpy.flipud', 'numpy.fliplr', 'numpy.asarray', 'numpy.transpose', 'numpy.reshape',
              'numpy.ravel', 'numpy.squeeze', 'numpy.atleast_2d', 'numpy.atleast_1d', 'numpy.moveaxis', 'iter',
              'numpy.expand_dims', 'numpy.asanyarray', 'numpy.broadcast_to', 'numpy.diagonal', 'reversed', 'getattr',
              'next', 'typing.cast', 'numpy.split', 'numpy.array_split', 'numpy.rollaxis'}
VIEW_METHODS = {'view', 'reshape', 'transpose', 'swapaxes', 'squeeze', 'ravel', 'get', 'values', 'items', 'keys',
                '__getitem__', 'setdefault', 'diagonal', 'pop', 'popitem', '__iter__', 'most_common', 'elements'}
VIEW_ATTRS = {'T', 'real', 'imag', 'flat', 'base', '__dict__', 'mT'}
# in-place numpy functions: index of the mutated argument
INPLACE_FUNCS = {'numpy.put': 0, 'numpy.place': 0, 'numpy.copyto': 0, 'numpy.fill_diagonal': 0, 'numpy.putmask': 0,
                 'setattr': 0, 'delattr': 0, 'numpy.put_along_axis': 0, 'random.shuffle': 0, 'numpy.random.shuffle': 0,
                 'operator.setitem': 0, 'operator.delitem': 0, 'operator.iadd': 0, 'heapq.heappush': 0, 'heapq.heappop': 0,
                 'heapq.heapify': 0, 'bisect.insort': 0, 'object.__setattr__': 0}
MEMO_DECORATORS = {'functools.lru_cache', 'functools.cache', 'functools.cached_property', 'lru_cache', 'cache',
                   'cached_property'}


class AV:
    """own: set of (root, depth) - depth 0 = the root object itself, 1 = an object reachable through the root.
    elem: set of roots reachable through this value (always depth 1)."""
    __slots__ = ("own", "elem", "arrayish", "fn")

    def __init__(self, own=(), elem=(), arrayish=False, fn=None):
        self.own = frozenset((r, 1) if isinstance(r, str) else r for r in own)
        self.elem = frozenset(r[0] if isinstance(r, tuple) else r for r in elem)
        self.arrayish = arrayish       # value is an index array / mask (fancy indexing with it copies)
        self.fn = fn                   # callable description (lambda node / method name) for higher-order use

    def all(self):
        """roots reachable from this value (as plain root names)"""
        return frozenset(r for r, _ in self.own) | self.elem

    def deep(self):
        """this object seen as `reachable` (depth 1) tagged roots"""
        return frozenset((r, 1) for r in self.all())

    def join(self, o):
        return AV(self.own | o.own, self.elem | o.elem, self.arrayish and o.arrayish, self.fn or o.fn)

    def __repr__(self):
        return f"AV(own={set(self.own)}, elem={set(self.elem)})"


FRESH = AV()


class Effect:
    def __init__(self, qualname, file, line, kind, target, roots):
        self.qualname, self.file, self.line, self.kind, self.target, self.roots = qualname, file, line, kind, target, frozenset(roots)

    def key(self):
        return f"{self.kind}:{self.qualname}:{self.target}"

    def __repr__(self):
        return f"{self.file}:{self.line} {self.qualname} {self.kind} {self.target} roots={sorted(self.roots)}"


class Summary:
    def __init__(self):
        self.mut = set()        # param indices whose own object is written
        self.mut_elem = set()   # param indices through which a reachable object is written
        self.glob = set()       # descriptions
        self.ret_own = set()    # param indices: the result may be the parameter object itself
        self.ret_sub = set()    # the result may be an object reachable from the parameter
        self.ret_elem = set()   # the result may reach (hold references to) objects of the parameter
        self.ret_unknown = False

    def state(self):
        return (frozenset(self.mut), frozenset(self.mut_elem), frozenset(self.glob), frozenset(self.ret_own), frozenset(self.ret_sub), frozenset(self.ret_elem), self.ret_unknown)


class Effects:
    def __init__(self, program):
        self.program = program
        self.summ = {q: Summary() for q in program.functions}
        self.direct = {q: [] for q in program.functions}       # direct effects (stores in that function)
        self.via = {q: [] for q in program.functions}          # (param idx / 'glob', callee qualname, line)
        self.unresolved = []                                   # stores on UNKNOWN roots (reported in evidence only)
        self.calls = {q: set() for q in program.functions}
        self.externals = set()
        self._fixpoint()

    # ------------------------------------------------------------------ families for name-based dispatch
    def family(self, cls):
        if cls is None:
            return None
        m = cls.module.name
        if m == "puan.ndarray":
            return "nd"
        if cls.qualname == "puan.Bounds":
            return "bounds"
        return "model"

    def candidates(self, name, family=None, cls=None):
        out = []
        related = None
        if cls is not None:
            related = {c.qualname for c in self.program.mro(cls)} | {c.qualname for c in self.program.subclasses(cls)}
        for f in self.program.methods_named(name):
            if related is not None:
                if f.cls.qualname in related:
                    out.append(f)
            elif family is None or self.family(f.cls) == family:
                out.append(f)
        if related is not None:
            # the most specific definition shadows base definitions unless a subclass overrides: keep first in MRO + overrides
            mro = [c.qualname for c in self.program.mro(cls)]
            inmro = [f for f in out if f.cls.qualname in mro]
            if inmro:
                first = min(inmro, key=lambda f: mro.index(f.cls.qualname))
                out = [f for f in out if f.cls.qualname not in mro or f is first]
        return out

    # ------------------------------------------------------------------
    def _fixpoint(self):
        for it in range(12):
            before = {q: s.state() for q, s in self.summ.items()}
            for q, fi in self.program.functions.items():
                self.direct[q] = []
                self.via[q] = []
                FuncEffects(self, fi).run()
            if before == {q: s.state() for q, s in self.summ.items()}:
                break
        # unresolved only from last iteration
        self.iterations = it + 1

    # ------------------------------------------------------------------ queries
    def reachable(self, entries):
        seen, todo = set(), list(entries)
        while todo:
            q = todo.pop()
            if q in seen:
                continue
            seen.add(q)
            todo.extend(self.calls.get(q, ()))
        return seen

    def witnesses(self, q, idx, depth=0, seen=None):
        """Root constructs (direct effects) responsible for `q` mutating parameter idx (or 'glob')."""
        seen = seen if seen is not None else set()
        if (q, idx) in seen or depth > 12:
            return []
        seen.add((q, idx))
        fi = self.program.functions[q]
        params = _params(fi)
        out = []
        for e in self.direct[q]:
            names = {r for r, _ in e.roots}
            if idx == 'glob':
                if any(r.startswith('GLOBAL:') for r in names):
                    out.append(([q], e))
            elif idx < len(params) and params[idx] in names:
                out.append(([q], e))
        for (i, callee, cidx, line) in self.via[q]:
            if i == idx:
                for chain, e in self.witnesses(callee, cidx, depth + 1, seen):
                    out.append(([q] + chain, e))
        return out


def _params(fi):
    a = fi.node.args
    return [x.arg for x in a.posonlyargs + a.args] + ([a.vararg.arg] if a.vararg else []) + \
           [x.arg for x in a.kwonlyargs] + ([a.kwarg.arg] if a.kwarg else [])


class FuncEffects(ast.NodeVisitor):
    def __init__(self, eng, fi):
        self.eng = eng
        self.fi = fi
        self.q = fi.qualname
        self.program = eng.program
        self.params = _params(fi)
        self.env = {p: AV({(p, 0)}, {p}) for p in self.params}
        self.summary = eng.summ[self.q]
        self.module = fi.module
        self.mutable_defaults = set()
        a = fi.node.args
        pos = a.posonlyargs + a.args
        for prm, d in list(zip(pos[len(pos) - len(a.defaults):], a.defaults)) + list(zip(a.kwonlyargs, a.kw_defaults)):
            if d is not None and isinstance(d, (ast.List, ast.Dict, ast.Set, ast.Call)):
                self.mutable_defaults.add(prm.arg)

    def run(self):
        self.block(self.fi.node.body)
        # decorators defined in the package wrap this function: what their inner functions do happens on every call of it
        for d in self.fi.node.decorator_list:
            name = dotted(d.func if isinstance(d, ast.Call) else d)
            q = self.program.qualify(self.module, name) if name else None
            D = self.program.functions.get(q)
            if D is not None and D.cls is None:
                self._decorator_effects(D)

    def _decorator_effects(self, D):
        saved = dict(self.env)
        # state created when the decorator runs (once, at import) and captured by the wrapper persists across calls
        for st in D.node.body:
            if isinstance(st, ast.Assign):
                for tg in st.targets:
                    if isinstance(tg, ast.Name):
                        g = f"GLOBAL:closure:{D.qualname}.{tg.id}"
                        self.env[tg.id] = AV({(g, 0)}, {g})
        mine = AV(frozenset().union(*[self.env[p].own for p in self.params if p in self.env]) if self.params else (),
                  frozenset().union(*[self.env[p].elem for p in self.params if p in self.env]) if self.params else ())
        for n in ast.walk(D.node):
            if isinstance(n, (ast.FunctionDef, ast.AsyncFunctionDef)) and n is not D.node:
                a = n.args
                for prm in a.posonlyargs + a.args + a.kwonlyargs:
                    self.env[prm.arg] = mine
                if a.vararg:
                    self.env[a.vararg.arg] = AV((), mine.all())
                if a.kwarg:
                    self.env[a.kwarg.arg] = AV((), mine.all())
                self.block(n.body)
        self.env = saved

    # ------------------------------------------------------------------ effects
    def effect(self, node, kind, target, roots):
        roots = {((r, 1) if isinstance(r, str) else r) for r in roots}
        if not roots:
            return
        if {r for r, _ in roots} == {"UNKNOWN"}:
            self.eng.unresolved.append((self.q, getattr(node, 'lineno', 0), kind, target))
            return
        e = Effect(self.q, self.fi.file, getattr(node, 'lineno', self.fi.node.lineno), kind, target, roots)
        self.eng.direct[self.q].append(e)
        self._record(roots)

    def _record(self, roots):
        for r, d in roots:
            if r in self.params:
                (self.summary.mut if d == 0 else self.summary.mut_elem).add(self.params.index(r))
                if r in self.mutable_defaults:
                    self.summary.glob.add(f"mutable default of parameter `{r}`")
            elif r.startswith("GLOBAL:"):
                self.summary.glob.add(r)

    # ------------------------------------------------------------------ statements
    def block(self, stmts):
        for st in stmts:
            self.stmt(st)

    def stmt(self, st):
        if isinstance(st, ast.Assign):
            v = self.ev(st.value)
            for tg in st.targets:
                self.assign(tg, v, st)
        elif isinstance(st, ast.AnnAssign):
            if st.value is not None:
                self.assign(st.target, self.ev(st.value), st)
        elif isinstance(st, ast.AugAssign):
            v = self.ev(st.value)
            if isinstance(st.target, ast.Name):
                cur = self.env.get(st.target.id)
                if cur is not None and cur.own and isinstance(st.op, (ast.Add, ast.Sub, ast.Mult, ast.BitOr, ast.BitAnd, ast.MatMult, ast.Div, ast.FloorDiv, ast.BitXor)):
                    # x += y mutates lists / ndarrays in place
                    self.effect(st, "augassign", st.target.id, cur.own)
                self.env[st.target.id] = (cur or FRESH).join(v)
            else:
                self.assign(st.target, v, st)
        elif isinstance(st, ast.Delete):
            for tg in st.targets:
                if isinstance(tg, (ast.Attribute, ast.Subscript)):
                    o = self.ev(tg.value)
                    self.effect(st, "del", _src(tg), o.own)
        elif isinstance(st, ast.Expr):
            self.ev(st.value)
        elif isinstance(st, ast.Return):
            if st.value is not None:
                v = self.ev(st.value)
                for r, d in v.own:
                    if r in self.params:
                        (self.summary.ret_own if d == 0 else self.summary.ret_sub).add(self.params.index(r))
                    else:
                        self.summary.ret_unknown = True
                for r in v.elem:
                    if r in self.params:
                        self.summary.ret_elem.add(self.params.index(r))
        elif isinstance(st, ast.If):
            self.ev(st.test)
            e0 = dict(self.env)
            self.block(st.body)
            e1 = self.env
            self.env = dict(e0)
            self.block(st.orelse)
            self.env = _join_env(e1, self.env)
        elif isinstance(st, (ast.For, ast.AsyncFor)):
            it = self.ev(st.iter)
            for _ in range(2):
                self.assign(st.target, AV(it.deep(), it.all()), st)
                self.block(st.body)
            self.block(st.orelse)
        elif isinstance(st, ast.While):
            for _ in range(2):
                self.ev(st.test)
                self.block(st.body)
            self.block(st.orelse)
        elif isinstance(st, (ast.With, ast.AsyncWith)):
            for it in st.items:
                v = self.ev(it.context_expr)
                if it.optional_vars is not None:
                    self.assign(it.optional_vars, v, st)
            self.block(st.body)
        elif isinstance(st, ast.Try):
            self.block(st.body)
            for h in st.handlers:
                if h.name:
                    self.env[h.name] = FRESH
                self.block(h.body)
            self.block(st.orelse)
            self.block(st.finalbody)
        elif isinstance(st, ast.Raise):
            if st.exc is not None:
                self.ev(st.exc)
        elif isinstance(st, ast.Assert):
            self.ev(st.test)
        elif isinstance(st, (ast.Global, ast.Nonlocal)):
            for n in st.names:
                self.env[n] = AV({(f"GLOBAL:{self.module.name}.{n}", 0)}, {f"GLOBAL:{self.module.name}.{n}"})
                self._globals = getattr(self, "_globals", set()) | {n}
        elif isinstance(st, (ast.FunctionDef, ast.AsyncFunctionDef)):
            self.env[st.name] = AV(fn=st)
        elif isinstance(st, ast.ClassDef):
            self.env[st.name] = FRESH
        elif isinstance(st, ast.Match):
            subj = self.ev(st.subject)
            e0 = dict(self.env)
            joined = None
            for case in st.cases:
                self.env = dict(e0)
                for n in ast.walk(case.pattern):        # names a pattern binds refer to (parts of) the subject
                    nm = getattr(n, "name", None)
                    if isinstance(nm, str):
                        self.env[nm] = subj
                if case.guard is not None:
                    self.ev(case.guard)
                self.block(case.body)
                joined = self.env if joined is None else _join_env(joined, self.env)
            self.env = _join_env(joined, e0) if joined is not None else e0
        elif isinstance(st, (ast.Pass, ast.Break, ast.Continue, ast.Import, ast.ImportFrom)):
            pass
        else:
            raise AnalysisError(f"E1: statement kind {type(st).__name__} at {self.fi.file}:{getattr(st, 'lineno', '?')} is not modelled")

    def assign(self, tg, v, st):
        if isinstance(tg, ast.Name):
            if tg.id in getattr(self, "_globals", set()):
                self.effect(st, "global-store", tg.id, {(f"GLOBAL:{self.module.name}.{tg.id}", 0)})
            self.env[tg.id] = v
        elif isinstance(tg, (ast.Tuple, ast.List)):
            for t in tg.elts:
                self.assign(t.value if isinstance(t, ast.Starred) else t, AV(v.deep(), v.all(), False, None), st)
        elif isinstance(tg, ast.Attribute):
            o = self.ev(tg.value)
            self.effect(st, "attr-store", _src(tg), o.own)
            if isinstance(tg.value, ast.Name):
                self.env[tg.value.id + "." + tg.attr] = v       # one-level field sensitivity
            else:
                self._absorb(tg.value, v)
        elif isinstance(tg, ast.Subscript):
            o = self.ev(tg.value)
            self.ev(tg.slice)
            self.effect(st, "item-store", _src(tg.value) + "[…]", o.own)
            self._absorb(tg.value, v)

    def _absorb(self, node, v):
        if isinstance(node, ast.Name) and node.id in self.env:
            cur = self.env[node.id]
            self.env[node.id] = AV(cur.own, cur.elem | v.all(), cur.arrayish, cur.fn)

    # ------------------------------------------------------------------ expressions
    def ev(self, n):
        m = getattr(self, "ev_" + type(n).__name__, None)
        if m is None:
            r = FRESH
            for c in ast.iter_child_nodes(n):
                if isinstance(c, ast.expr):
                    r = r.join(self.ev(c))
            return AV((), r.all())
        return m(n)

    def ev_Constant(self, n):
        return FRESH

    def ev_Name(self, n):
        if n.id in self.env:
            return self.env[n.id]
        m = self.module
        if n.id in m.assigns:
            g = f"GLOBAL:{m.name}.{n.id}"
            return AV({(g, 0)}, {g})
        if n.id in m.classes:
            g = f"GLOBAL:{m.name}.{n.id}"
            return AV({(g, 0)}, {g}, fn=('class', m.classes[n.id]))
        if n.id in m.functions:
            return AV(fn=('func', m.functions[n.id]))
        return AV(fn=('name', self.program.qualify(m, n.id)))

    def ev_Attribute(self, n):
        d = dotted(n)
        if d is not None:
            head = d.split(".")[0]
            if head not in self.env and (head in self.module.imports or head in self.module.classes):
                q = self.program.qualify(self.module, d)
                if q in self.program.functions:
                    return AV(fn=('func', self.program.functions[q]))
                if q in self.program.classes:
                    g = f"GLOBAL:{q}"
                    return AV({(g, 0)}, {g}, fn=('class', self.program.classes[q]))
                parts = q.rsplit(".", 1)
                if len(parts) == 2 and parts[0] in self.program.classes:
                    g = f"GLOBAL:{q}"
                    return AV({(g, 0)}, {g})
                # attribute of an imported module of ours
                mod = q.rsplit(".", 1)[0]
                if mod in self.program.modules and q.rsplit(".", 1)[1] in self.program.modules[mod].assigns:
                    g = f"GLOBAL:{q}"
                    return AV({(g, 0)}, {g})
                return AV(fn=('name', q))
        if isinstance(n.value, ast.Name) and (n.value.id + "." + n.attr) in self.env:
            return self.env[n.value.id + "." + n.attr]
        o = self.ev(n.value)
        if n.attr in VIEW_ATTRS:
            return AV(o.own, o.elem, fn=None)
        # property call?
        fam = self._family_of(n.value)
        for f in self.eng.candidates(n.attr, fam, self.fi.cls if fam is not None else None):
            if f.is_property:
                return self._apply(f, [o], n, bound=True)
        return AV(o.elem, o.elem, fn=('method', n.attr, o, n.value))

    def _family_of(self, node):
        if isinstance(node, ast.Name) and node.id in ('self', 'cls') and self.fi.cls is not None and self.params and self.params[0] == node.id:
            return self.eng.family(self.fi.cls)
        return None

    def ev_Subscript(self, n):
        o = self.ev(n.value)
        i = self.ev(n.slice)
        if i.arrayish or isinstance(n.slice, (ast.Compare, ast.List)) or (isinstance(n.slice, ast.Tuple) and any(self.ev(e).arrayish or isinstance(e, (ast.Compare, ast.List)) for e in n.slice.elts)):
            return AV((), o.elem)            # fancy / mask indexing copies
        return AV(o.own | o.deep(), o.elem)

    def ev_Slice(self, n):
        for x in (n.lower, n.upper, n.step):
            if x is not None:
                self.ev(x)
        return FRESH

    def ev_Tuple(self, n):
        r = FRESH
        for e in n.elts:
            v = self.ev(e.value if isinstance(e, ast.Starred) else e)
            r = AV((), r.elem | v.all(), r.arrayish or v.arrayish)
        return r
    ev_List = ev_Tuple
    ev_Set = ev_Tuple

    def ev_Dict(self, n):
        r = FRESH
        for k, v in zip(n.keys, n.values):
            if k is not None:
                self.ev(k)
            r = AV((), r.elem | self.ev(v).all())
        return r

    def ev_BinOp(self, n):
        a, b = self.ev(n.left), self.ev(n.right)
        return AV((), a.elem | b.elem, arrayish=True)

    def ev_UnaryOp(self, n):
        v = self.ev(n.operand)
        return AV((), (), arrayish=True)

    def ev_BoolOp(self, n):
        r = FRESH
        for v in n.values:
            r = r.join(self.ev(v))
        return r

    def ev_Compare(self, n):
        self.ev(n.left)
        for c in n.comparators:
            self.ev(c)
        return AV(arrayish=True)

    def ev_IfExp(self, n):
        self.ev(n.test)
        return self.ev(n.body).join(self.ev(n.orelse))

    def ev_JoinedStr(self, n):
        for v in n.values:
            if isinstance(v, ast.FormattedValue):
                self.ev(v.value)
        return FRESH

    def ev_Starred(self, n):
        return self.ev(n.value)

    def ev_NamedExpr(self, n):
        v = self.ev(n.value)
        self.assign(n.target, v, n)
        return v

    def ev_Lambda(self, n):
        return AV(fn=n)

    def _comp(self, n, elts):
        saved = dict(self.env)
        for g in n.generators:
            it = self.ev(g.iter)
            self.assign(g.target, AV(it.deep(), it.all()), n)
            for c in g.ifs:
                self.ev(c)
        r = FRESH
        for e in elts:
            r = AV((), r.elem | self.ev(e).all())
        self.env = saved
        return r

    def ev_ListComp(self, n): return self._comp(n, [n.elt])
    def ev_SetComp(self, n): return self._comp(n, [n.elt])
    def ev_GeneratorExp(self, n): return self._comp(n, [n.elt])
    def ev_DictComp(self, n): return self._comp(n, [n.key, n.value])

    # ------------------------------------------------------------------ calls
    def call_fn(self, fnv, args, node):
        """Call an abstract callable on abstract args (used for lambdas handed to map/filter/compose...)."""
        f = fnv.fn if isinstance(fnv, AV) else fnv
        if f is None:
            return AV((), frozenset().union(*[a.all() for a in args]) if args else ())
        if isinstance(f, ast.Lambda):
            saved = dict(self.env)
            names = [x.arg for x in f.args.posonlyargs + f.args.args]
            for i, p in enumerate(names):
                self.env[p] = args[i] if i < len(args) else (AV({(r, 1) for r in _u(args)}, _u(args)) if args else FRESH)
            if f.args.vararg:
                self.env[f.args.vararg.arg] = AV((), _u(args))
            r = self.ev(f.body)
            self.env = saved
            return r
        if isinstance(f, (ast.FunctionDef,)):
            return AV((), _u(args))
        if isinstance(f, tuple):
            kind = f[0]
            if kind == 'func':
                return self._apply(f[1], args, node)
            if kind == 'class':
                return self._construct(f[1], args, node)
            if kind == 'method':
                _, name, recv, recv_node = f
                return self._method(name, recv, recv_node, args, node)
            if kind == 'methodcaller':
                _, name, extra = f
                recv = args[0] if args else AV({('UNKNOWN', 1)}, {'UNKNOWN'})
                return self._method(name, recv, None, list(extra) + list(args[1:]), node)
            if kind == 'attrgetter':
                recv = args[0] if args else FRESH
                return AV(recv.deep(), recv.elem)
            if kind == 'compose':
                cur = args
                for g in reversed(f[1]):
                    cur = [self.call_fn(g, cur, node)]
                return cur[0] if cur else FRESH
            if kind == 'fnmap':
                r = FRESH
                for g in f[1]:
                    v = self.call_fn(g, args, node)
                    r = AV((), r.elem | v.all())
                return r
            if kind == 'partial':
                return self.call_fn(f[1], list(f[2]) + list(args), node)
            if kind == 'pospartial':
                a = list(args)
                for i, v in f[2]:
                    a.insert(i, v)
                return self.call_fn(f[1], a, node)
            if kind == 'ifttt':
                r = FRESH
                for g in f[1]:
                    r = r.join(self.call_fn(g, args, node))
                return r
            if kind == 'invoke':
                # fn(*args[0]) : elements of the single list argument
                a = args[0] if args else FRESH
                return self.call_fn(f[1], [AV(a.deep(), a.all())] * 3, node)
            if kind == 'name':
                return self._external(f[1], args, node)
        return AV((), _u(args))

    def ev_Call(self, n):
        # evaluate arguments
        args = []
        for a in n.args:
            v = self.ev(a.value if isinstance(a, ast.Starred) else a)
            if isinstance(a, ast.Starred):
                v = AV(v.deep(), v.all(), fn=v.fn)
            args.append(v)
        kwargs = {}
        for k in n.keywords:
            v = self.ev(k.value)
            if k.arg is None:
                args.append(AV(v.deep(), v.all()))
            else:
                kwargs[k.arg] = v
                if k.arg == "out":
                    # numpy ufunc / function writing its result into an existing array
                    self.effect(n, "out-argument", f"{_src(n.func)}(…, out={_src(k.value)})", v.own)
        # super().m(...)
        if isinstance(n.func, ast.Attribute) and isinstance(n.func.value, ast.Call) and isinstance(n.func.value.func, ast.Name) \
                and n.func.value.func.id == 'super' and self.fi.cls is not None:
            target = self.program.lookup_method(self.fi.cls, n.func.attr, after=self.fi.cls)
            if target is not None:
                selfv = self.env.get(self.params[0], FRESH) if self.params else FRESH
                first = [selfv] if n.func.attr != '__new__' else []
                return self._apply(target, first + args, n, kwargs=kwargs)
            return AV((), _u(args))
        fnv = self.ev(n.func)
        f = fnv.fn
        allargs = args + list(kwargs.values())
        if isinstance(f, tuple) and f[0] == 'func':
            return self._apply(f[1], args, n, kwargs=kwargs)
        if isinstance(f, tuple) and f[0] == 'class':
            return self._construct(f[1], args, n, kwargs=kwargs)
        if isinstance(f, tuple) and f[0] == 'method':
            return self._method(f[1], f[2], f[3], args, n, kwargs=kwargs)
        if isinstance(f, tuple) and f[0] == 'name':
            return self._external(f[1], allargs, n, raw=n)
        return self.call_fn(fnv, allargs, n)

    # repo function with summary
    def _apply(self, fi, args, node, kwargs=None, bound=False):
        self.eng.calls[self.q].add(fi.qualname)
        s = self.eng.summ[fi.qualname]
        cparams = _params(fi)
        actual = {}
        for i, a in enumerate(args):
            if i < len(cparams):
                actual[i] = a
        for k, v in (kwargs or {}).items():
            if k in cparams:
                actual[cparams.index(k)] = v
            elif fi.node.args.kwarg:
                actual[len(cparams) - 1] = v
        if fi.node.args.vararg:
            vi = cparams.index(fi.node.args.vararg.arg)
            extra = [a for i, a in enumerate(args) if i >= vi]
            if extra:
                actual[vi] = AV((), _u(extra))
        for i in list(s.mut):
            a = actual.get(i)
            if a is not None:
                self._via(a.own, fi.qualname, i, node)            # the actual object itself is written
        for i in list(s.mut_elem):
            a = actual.get(i)
            if a is not None:
                self._via(a.deep(), fi.qualname, i, node)         # something reachable from the actual is written
        for g in list(s.glob):
            self.summary.glob.add(g)
            self.eng.via[self.q].append(('glob', fi.qualname, 'glob', getattr(node, 'lineno', 0)))
        own = set()
        elem = set()
        for i in list(s.ret_own):
            if i in actual:
                own |= actual[i].own
                elem |= actual[i].elem
        for i in list(s.ret_sub):
            if i in actual:
                own |= actual[i].deep()
                elem |= actual[i].all()
        for i in list(s.ret_elem):
            if i in actual:
                elem |= actual[i].all()
        if s.ret_unknown:
            elem |= {'UNKNOWN'}
        return AV(own, elem)

    def _via(self, roots, callee, cidx, node):
        for r, d in roots:
            if r in self.params:
                i = self.params.index(r)
                (self.summary.mut if d == 0 else self.summary.mut_elem).add(i)
                self.eng.via[self.q].append((i, callee, cidx, getattr(node, 'lineno', 0)))
            elif r.startswith('GLOBAL:'):
                self.summary.glob.add(r)
                self.eng.via[self.q].append(('glob', callee, cidx, getattr(node, 'lineno', 0)))

    def _construct(self, ci, args, node, kwargs=None):
        ctor = self.program.lookup_method(ci, '__init__')
        new = self.program.lookup_method(ci, '__new__')
        res = AV((), _u(args + list((kwargs or {}).values())))
        for c in (new, ctor):
            if c is not None:
                self._apply(c, [FRESH] + args, node, kwargs=kwargs)
        return res

    def _method(self, name, recv, recv_node, args, node, kwargs=None):
        fam = self._family_of(recv_node) if recv_node is not None else None
        cands = [f for f in self.eng.candidates(name, fam, self.fi.cls if fam is not None else None) if not f.is_property]
        r = None
        for f in cands:
            if f.is_static:
                v = self._apply(f, args, node, kwargs=kwargs)
            else:
                v = self._apply(f, [recv] + args, node, kwargs=kwargs)
            r = v if r is None else r.join(v)
        definitely_repo = fam is not None and cands
        if not definitely_repo:
            # external method semantics
            if name in MUTATORS:
                self.effect(node, "mutator-call", (_src(recv_node) if recv_node is not None else '?') + f".{name}()", recv.own)
                self._absorb(recv_node, AV((), _u(args))) if recv_node is not None else None
            if name in VIEW_METHODS:
                v = AV(recv.own | recv.deep(), recv.elem) if name != 'view' else AV((), recv.elem)
            elif name in ('copy', 'astype', 'tolist', 'flatten', '__copy__', '__deepcopy__'):
                v = AV((), recv.elem if name != '__deepcopy__' else ())
            else:
                v = AV((), recv.elem | _u(args + list((kwargs or {}).values())), arrayish=name in ('argmax', 'argmin', 'argsort', 'nonzero', 'any', 'all', 'tolist'))
            if not cands:
                self.eng.externals.add('.' + name)
            r = v if r is None else r.join(v)
        return r

    def _external(self, q, args, node, raw=None):
        base = q
        if q in INPLACE_FUNCS and args:
            self.effect(node, "inplace-call", f"{q}({_src(raw.args[0]) if raw is not None and raw.args else '?'}, …)", args[INPLACE_FUNCS[q]].own)
        # higher-order helpers
        if q in ('map', 'filter', 'itertools.starmap', 'itertools.filterfalse', 'itertools.takewhile', 'itertools.dropwhile'):
            if args:
                data = args[1:]
                elems = [AV(d.deep(), d.all()) for d in data]
                r = self.call_fn(args[0], elems if elems else [], node)
                if q == 'filter':
                    return AV((), _u(data))
                return AV((), r.all() | _u(data))
        if q in ('sorted', 'min', 'max', 'maz.sorted_pos') and raw is not None:
            for k in raw.keywords:
                if k.arg == 'key':
                    self.call_fn(self.ev(k.value), [AV({(r, 1) for r in _u(args)}, _u(args))], node)
        if q == 'functools.reduce' and args:
            a = AV({(r, 1) for r in _u(args[1:])}, _u(args[1:]))
            self.call_fn(args[0], [a, a], node)
            return AV((), _u(args[1:]))
        if q == 'maz.compose':
            return AV(fn=('compose', list(args)))
        if q == 'maz.compose_pair':
            return AV(fn=('compose', list(args)))
        if q == 'maz.fnmap':
            return AV(fn=('fnmap', list(args)))
        if q == 'maz.ifttt':
            return AV(fn=('ifttt', list(args)))
        if q == 'maz.fnexcept':
            return AV(fn=('ifttt', list(args)))
        if q == 'maz.invoke':
            if len(args) >= 2:
                return self.call_fn(('invoke', args[0]), args[1:], node)
            return AV(fn=('invoke', args[0])) if args else FRESH
        if q == 'maz.filter_map_concat':
            return AV(fn=('ifttt', list(args)))
        if q == 'functools.partial' and args:
            if isinstance(args[0].fn, tuple) and args[0].fn[0] == 'name' and args[0].fn[1] == 'maz.invoke' and len(args) >= 2:
                return AV(fn=('invoke', args[1]))
            kw = [self.ev(k.value) for k in raw.keywords] if raw is not None else []
            return AV(fn=('partial', args[0], list(args[1:]) + kw))
        if q == 'maz.pospartial' and len(args) == 2 and raw is not None and isinstance(raw.args[1], (ast.List, ast.Tuple)):
            pas = []
            for e in raw.args[1].elts:
                if isinstance(e, (ast.Tuple, ast.List)) and len(e.elts) == 2 and isinstance(e.elts[0], ast.Constant):
                    pas.append((e.elts[0].value, self.ev(e.elts[1])))
            return AV(fn=('pospartial', args[0], pas))
        if q == 'operator.methodcaller' and raw is not None and raw.args and isinstance(raw.args[0], ast.Constant):
            return AV(fn=('methodcaller', raw.args[0].value, args[1:]))
        if q == 'operator.attrgetter':
            return AV(fn=('attrgetter',))
        if q == 'operator.itemgetter':
            return AV(fn=('attrgetter',))
        if q in VIEW_FUNCS and args:
            return AV(args[0].own | (args[0].deep() if q in ('next', 'getattr', 'iter', 'reversed') else frozenset()), args[0].elem | _u(args[1:]))
        if q in ('list', 'tuple', 'set', 'dict', 'frozenset', 'sorted', 'zip', 'enumerate', 'itertools.chain',
                 'itertools.chain.from_iterable', 'itertools.compress', 'itertools.product', 'collections.Counter',
                 'numpy.array', 'numpy.hstack', 'numpy.vstack', 'numpy.append', 'numpy.delete', 'numpy.concatenate',
                 'numpy.stack', 'copy.copy', 'itertools.islice', 'itertools.zip_longest', 'itertools.repeat',
                 'more_itertools.flatten', 'itertools.groupby', 'itertools.tee', 'itertools.cycle', 'itertools.accumulate',
                 'itertools.combinations', 'itertools.permutations', 'numpy.tile', 'numpy.pad', 'numpy.take', 'numpy.where'):
            return AV((), _u(args))
        if q.startswith('numpy.') or q in ('len', 'sum', 'any', 'all', 'abs', 'int', 'float', 'str', 'bool', 'hash', 'repr',
                                             'isinstance', 'issubclass', 'callable', 'range', 'type', 'id', 'round', 'divmod',
                                             'pow', 'ord', 'chr', 'format', 'hasattr', 'print', 'math.pow', 'min', 'max',
                                             'copy.deepcopy', 'json.dumps', 'json.loads', 'pickle.dumps', 'pickle.loads',
                                             'gzip.compress', 'gzip.decompress', 'base64.b64encode', 'base64.b64decode',
                                             'hashlib.sha256', 'dataclasses.asdict', 'super', 'ValueError', 'Exception',
                                             'KeyError', 'TypeError', 'NotImplementedError', 'AssertionError'):
            ar = q in ('numpy.argsort', 'numpy.argmax', 'numpy.argmin', 'numpy.arange', 'numpy.nonzero', 'numpy.argwhere',
                       'numpy.isnan', 'numpy.where', 'numpy.flatnonzero', 'numpy.logical_not', 'numpy.logical_and',
                       'numpy.logical_or', 'numpy.all', 'numpy.any')
            return AV((), (), arrayish=ar)
        self.eng.externals.add(q)
        # unknown external callee: assumed pure; the result may reach its arguments
        for a in args:
            if a.fn is not None and not isinstance(a.fn, tuple):
                self.call_fn(a, [AV({('UNKNOWN', 1)}, {'UNKNOWN'})], node)
        return AV((), _u(args))


def _u(avs):
    s = set()
    for a in avs:
        s |= a.all()
    return frozenset(s)


def _join_env(a, b):
    out = {}
    for k in set(a) | set(b):
        if k in a and k in b:
            out[k] = a[k].join(b[k])
        else:
            out[k] = a.get(k) or b.get(k)
    return out


def _src(node):
    try:
        return ast.unparse(node)
    except Exception:
        return "?"


# ------------------------------------------------------------------------------------------------
# memoisation rule
# ------------------------------------------------------------------------------------------------
def memo_sites(program):
    """Every function decorated with lru_cache / cache / cached_property (resolved through aliases)."""
    out = []
    for q, fi in program.functions.items():
        for d in fi.node.decorator_list:
            name = dotted(d.func if isinstance(d, ast.Call) else d)
            if name is None:
                continue
            qn = program.qualify(fi.module, name)
            if qn in MEMO_DECORATORS or qn.split(".")[-1] in ("lru_cache", "cached_property") or qn == "functools.cache":
                out.append((fi, qn, d.lineno))
    # module-level wrapping:  f = functools.lru_cache(...)(f)
    for m in program.modules.values():
        for n in ast.walk(m.tree):
            if isinstance(n, ast.Call):
                name = dotted(n.func.func if isinstance(n.func, ast.Call) else n.func)
                if name and program.qualify(m, name) in MEMO_DECORATORS and not any(
                        n is (d.func if isinstance(d, ast.Call) else d) or n is d for f in program.functions.values() if f.module is m for d in f.node.decorator_list):
                    out.append((None, program.qualify(m, name) + f" call at {m.relpath}:{n.lineno}", n.lineno, m))
    return out
