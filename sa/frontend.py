"""Front end: parse /repo/puan/**, build module / class / function index, import aliases, MRO.

Nothing from the analysed package is ever imported or executed; everything is `ast`.
"""
import ast
import hashlib
import os

REPO = os.environ.get("VERIF_REPO", "/repo")
PKG = "puan"


class AnalysisError(Exception):
    """Analysis could not be carried out (anchor vanished, parse error, unsupported construct)."""


class FuncInfo:
    def __init__(self, qualname, node, module, cls=None):
        self.qualname = qualname          # e.g. puan.logic.plog.AtLeast.assume
        self.node = node
        self.module = module              # ModuleInfo
        self.cls = cls                    # ClassInfo or None
        self.name = node.name
        self.decorators = [dotted(d.func if isinstance(d, ast.Call) else d) for d in node.decorator_list]

    def decorator_list_nontrivial(self):
        return any(d not in ("staticmethod",) for d in self.decorators)

    @property
    def is_property(self):
        return any(d in ("property", "functools.cached_property") for d in self.decorators)

    @property
    def is_static(self):
        return "staticmethod" in self.decorators

    @property
    def is_classmethod(self):
        return "classmethod" in self.decorators

    @property
    def params(self):
        a = self.node.args
        return [x.arg for x in a.posonlyargs + a.args]

    @property
    def file(self):
        return self.module.relpath

    def loc(self, node=None):
        n = node if node is not None else self.node
        return f"{self.module.relpath}:{getattr(n, 'lineno', self.node.lineno)}"


class ClassInfo:
    def __init__(self, qualname, node, module):
        self.qualname = qualname
        self.node = node
        self.module = module
        self.name = node.name
        self.methods = {}                 # name -> FuncInfo (own definitions only)
        self.base_names = []              # qualified names of bases (may be external)
        self.class_attrs = {}             # name -> ast value

    def __repr__(self):
        return f"<class {self.qualname}>"


class ModuleInfo:
    def __init__(self, name, path, relpath, src):
        self.name = name
        self.path = path
        self.relpath = relpath
        self.src = src
        self.sha256 = hashlib.sha256(src.encode()).hexdigest()
        try:
            import warnings
            with warnings.catch_warnings():
                warnings.simplefilter("ignore")
                self.tree = ast.parse(src, filename=path)
        except SyntaxError as e:
            raise AnalysisError(f"cannot parse {relpath}: {e}")
        self.imports = {}                 # local alias -> qualified dotted name
        self.classes = {}
        self.functions = {}
        self.assigns = {}                 # module-level NAME = value (ast)


def dotted(node):
    if isinstance(node, ast.Name):
        return node.id
    if isinstance(node, ast.Attribute):
        b = dotted(node.value)
        return None if b is None else b + "." + node.attr
    return None


class Program:
    """Index of the analysed package."""

    def __init__(self, repo=None, pkg=PKG, overrides=None):
        self.repo = repo or REPO
        self.pkg = pkg
        self.overrides = overrides or {}      # relpath -> source text (in-memory variants for self-validation)
        self._enum = None
        self.modules = {}
        self.classes = {}                 # qualname -> ClassInfo
        self.functions = {}               # qualname -> FuncInfo
        self._load()
        self._link()

    # ------------------------------------------------------------------ loading
    def _load(self):
        if self.repo == "<memory>":
            # purely in-memory program (positive / negative controls of the rules)
            for rel, src in sorted(self.overrides.items()):
                parts = rel[:-3].split("/")
                if parts[-1] == "__init__":
                    parts = parts[:-1]
                name = ".".join(parts)
                self.modules[name] = ModuleInfo(name, rel, rel, src)
            for m in self.modules.values():
                self._index_module(m)
            return
        root = os.path.join(self.repo, self.pkg)
        if not os.path.isdir(root):
            raise AnalysisError(f"package directory {root} not found")
        for dirpath, dirnames, filenames in sorted(os.walk(root)):
            dirnames[:] = sorted(d for d in dirnames if d != "__pycache__")
            for fn in sorted(filenames):
                if not fn.endswith(".py"):
                    continue
                path = os.path.join(dirpath, fn)
                rel = os.path.relpath(path, self.repo)
                parts = rel[:-3].split(os.sep)
                if parts[-1] == "__init__":
                    parts = parts[:-1]
                name = ".".join(parts)
                if rel in self.overrides:
                    src = self.overrides[rel]
                else:
                    with open(path, encoding="utf8") as f:
                        src = f.read()
                self.modules[name] = ModuleInfo(name, path, rel, src)
        for m in self.modules.values():
            self._index_module(m)

    def _index_module(self, m):
        for st in m.tree.body:
            if isinstance(st, ast.Import):
                for a in st.names:
                    if a.asname:
                        m.imports[a.asname] = a.name
                    else:
                        m.imports[a.name.split(".")[0]] = a.name.split(".")[0]
            elif isinstance(st, ast.ImportFrom):
                base = st.module or ""
                for a in st.names:
                    m.imports[a.asname or a.name] = (base + "." + a.name) if base else a.name
            elif isinstance(st, ast.ClassDef):
                ci = ClassInfo(m.name + "." + st.name, st, m)
                m.classes[st.name] = ci
                self.classes[ci.qualname] = ci
                for b in st.body:
                    if isinstance(b, (ast.FunctionDef, ast.AsyncFunctionDef)):
                        fi = FuncInfo(ci.qualname + "." + b.name, b, m, ci)
                        ci.methods[b.name] = fi
                        self.functions[fi.qualname] = fi
                    elif isinstance(b, ast.Assign) and len(b.targets) == 1 and isinstance(b.targets[0], ast.Name):
                        ci.class_attrs[b.targets[0].id] = b.value
                    elif isinstance(b, ast.AnnAssign) and isinstance(b.target, ast.Name) and b.value is not None:
                        ci.class_attrs[b.target.id] = b.value
            elif isinstance(st, (ast.FunctionDef, ast.AsyncFunctionDef)):
                fi = FuncInfo(m.name + "." + st.name, st, m, None)
                m.functions[st.name] = fi
                self.functions[fi.qualname] = fi
            elif isinstance(st, ast.Assign) and len(st.targets) == 1 and isinstance(st.targets[0], ast.Name):
                m.assigns[st.targets[0].id] = st.value
            elif isinstance(st, ast.AnnAssign) and isinstance(st.target, ast.Name) and st.value is not None:
                m.assigns[st.target.id] = st.value

    def _link(self):
        for ci in self.classes.values():
            ci.base_names = [self.qualify(ci.module, dotted(b)) for b in ci.node.bases if dotted(b)]

    # ------------------------------------------------------------------ name resolution
    def qualify(self, module, name):
        """Qualify a dotted name as seen from `module` (import aliases, module-level definitions)."""
        if name is None:
            return None
        parts = name.split(".")
        head = parts[0]
        if head in module.classes or head in module.functions or head in module.assigns:
            q = module.name + "." + name
        elif head in module.imports:
            q = ".".join([module.imports[head]] + parts[1:])
        else:
            return name                    # builtin or unknown
        return self._canon_qual(q)

    def _canon_qual(self, q):
        # follow "module.attr" where module is one of ours and attr is an import alias there
        parts = q.split(".")
        for i in range(len(parts), 0, -1):
            mod = ".".join(parts[:i])
            if mod in self.modules and i < len(parts):
                m = self.modules[mod]
                nxt = parts[i]
                if nxt in m.imports and nxt not in m.classes and nxt not in m.functions:
                    return self._canon_qual(".".join([m.imports[nxt]] + parts[i + 1:]))
                break
        return q

    def mro(self, cls):
        """Linearised list of ClassInfo (own package only) - simple DFS left-to-right, no diamonds here."""
        out, seen = [], set()

        def go(c):
            if c.qualname in seen:
                return
            seen.add(c.qualname)
            out.append(c)
            for b in c.base_names:
                if b in self.classes:
                    go(self.classes[b])
        go(cls)
        return out

    def external_bases(self, cls):
        ext = []
        for c in self.mro(cls):
            for b in c.base_names:
                if b not in self.classes:
                    ext.append(b)
        return ext

    def lookup_method(self, cls, name, after=None):
        """Resolve a method by MRO. `after`: start after this class (for super())."""
        chain = self.mro(cls)
        if after is not None:
            idx = [c.qualname for c in chain].index(after.qualname)
            chain = chain[idx + 1:]
        for c in chain:
            if name in c.methods:
                return c.methods[name]
        return None

    def subclasses(self, cls, strict=False):
        out = []
        for c in self.classes.values():
            if c is cls and strict:
                continue
            if cls in self.mro(c):
                out.append(c)
        return out

    def methods_named(self, name):
        return [f for f in self.functions.values() if f.cls is not None and f.name == name]

    def func(self, qualname):
        f = self.functions.get(qualname)
        if f is None:
            raise AnalysisError(f"anchor vanished: function {qualname} not found in {self.repo}")
        return f

    def cls(self, qualname):
        c = self.classes.get(qualname)
        if c is None:
            raise AnalysisError(f"anchor vanished: class {qualname} not found in {self.repo}")
        return c

    def stored_attr_names(self):
        """every attribute name that is assigned somewhere in the package (instance attributes)"""
        if getattr(self, "_stored", None) is None:
            names = set()
            for m in self.modules.values():
                for n in ast.walk(m.tree):
                    if isinstance(n, ast.Attribute) and isinstance(n.ctx, (ast.Store, ast.Del)):
                        names.add(n.attr)
                    elif isinstance(n, ast.Call) and isinstance(n.func, ast.Name) and n.func.id in ("setattr", "getattr") and len(n.args) >= 2 \
                            and isinstance(n.args[1], ast.Constant) and isinstance(n.args[1].value, str):
                        names.add(n.args[1].value)
            self._stored = names
        return self._stored

    def digests(self):
        return {m.relpath: m.sha256 for m in self.modules.values()}

    def enum_constants(self):
        """Qualified enum member -> constant (e.g. puan.Sign.POSITIVE -> 1)."""
        if self._enum is not None:
            return self._enum
        out = {}
        for c in self.classes.values():
            bases = set(c.base_names)
            if bases & {"enum.Enum", "enum.IntEnum", "Enum", "IntEnum"}:
                for k, v in c.class_attrs.items():
                    try:
                        out[c.qualname + "." + k] = ast.literal_eval(v)
                    except Exception:
                        pass
        self._enum = out
        return out

    def counts(self):
        ncalls = 0
        for m in self.modules.values():
            ncalls += sum(isinstance(n, ast.Call) for n in ast.walk(m.tree))
        return {"modules": len(self.modules), "classes": len(self.classes),
                "functions": len(self.functions), "call_sites": ncalls}
