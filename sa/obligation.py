"""Obligations, run context, known-findings file."""
import os
import re

from .frontend import AnalysisError


class Ob:
    def __init__(self, id, rule, where, status, detail="", key="", code="", ref=""):
        self.id = id
        self.rule = rule
        self.where = where
        self.status = status        # ok | violation | inconclusive | known
        self.detail = detail
        self.key = key or f"{rule}:{id}"
        self.code = code
        self.ref = ref
        self.known_text = ""

    def as_dict(self):
        d = {"obligation": self.id, "rule": self.rule, "where": self.where, "verdict": self.status}
        if self.detail:
            d["detail"] = self.detail[:600]
        if self.status in ("violation", "known"):
            d["key"] = self.key
        return d


class Ctx:
    def __init__(self, program, contracts, tier="quick", seed=0):
        self.program = program
        self.contracts = contracts
        self.tier = tier
        self.seed = seed
        self.touched = set()
        self.extra = {}

    def loc(self, qualname):
        fi = self.program.func(qualname)
        self.touched.add(qualname)
        return f"{fi.file}:{fi.node.lineno} {qualname}"

    # ---- E2 obligations from the reference contracts of a property
    def contract_obligations(self, pid, only=None, exclude=()):
        out = []
        for q, v in self.contracts.for_property(pid):
            if only is not None and q not in only:
                continue
            if q in exclude:
                continue
            if self.contracts.meta(q, v).get("optional") and q not in self.program.functions:
                continue        # a helper a repair introduced: where it is absent, the contract of its caller decides
            out.append(self.contract_ob(q, v, pid=pid))
        return out

    def contract_ob(self, q, v=None, id=None, pid=None):
        meta = self.contracts.meta(q, v)
        try:
            where = self.loc(q)
        except AnalysisError as e:
            raise
        r = self.contracts.check(q, v, pid)
        short = q.replace("puan.logic.plog.", "plog.").replace("puan.modules.configurator.", "cc.").replace("puan.ndarray.", "nd.")
        oid = id or f"E2:{short}{'/' + v if v else ''}"
        detail = r.detail if r.status != "ok" else f"code ≡ reference ({meta.get('why', '')})"
        return Ob(oid, "E2.equiv", where, r.status, detail, r.key, r.code, r.ref)


    # ---- role rules that a whole-function contract implies
    def ref_term(self, q, variant=None):
        """normalised term of the reference of q, over the parameter names of the code"""
        from . import terms as T
        rm, rfi, meta = self.contracts.refs[(q, variant)]
        cl = T.FuncLower(self.program, self.program.func(q))
        rl = T.FuncLower(self.program, rfi, param_names=None)
        rl.param_names = cl.params[:len(rl.params)]
        return T.norm(rl.term())

    def settle_roles(self, pid, q, code_obs, ref_obs, variant=None):
        """A role rule looks for a particular shape in ONE function whose whole-function contract is claimed by the same
        property. The rule must hold on the reference (else the reference is wrong: analysis error). Where the rule does not
        recognise the code's shape but the code is proven equivalent to that reference, the role holds by equivalence; a
        role violation is reported only together with a contract that is not discharged (it then names what deviates)."""
        bad = [o for o in ref_obs if o.status != "ok"]
        if bad:
            raise AnalysisError(f"role rule {bad[0].id} does not hold on the reference of {q}: {bad[0].detail[:200]}")
        if all(o.status == "ok" for o in code_obs):
            return code_obs
        r = self.contracts.check(q, variant, pid)
        if r.status == "ok":
            for o in code_obs:
                if o.status != "ok":
                    o.detail = "shape of this rule not recognised in the code; the role holds because code ≡ reference and the rule " \
                               "holds on the reference (was: " + o.detail[:160] + ")"
                    o.status = "ok"
        return code_obs


def load_known(path):
    """known: property=C05 key=<key> :: text      |      fixed: property=C10 <commit> <text>"""
    known = {}
    if not os.path.exists(path):
        return known
    with open(path, encoding="utf8") as f:
        for line in f:
            line = line.strip()
            if not line.startswith("known:"):
                continue
            m = re.match(r"known:\s+property=(\S+)\s+key=(\S+)\s*(?:::\s*(.*))?$", line)
            if not m:
                raise AnalysisError(f"malformed line in KNOWN_FINDINGS.txt: {line[:80]}")
            known[(m.group(1), m.group(2))] = m.group(3) or ""
    return known
