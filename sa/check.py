#!/venv/bin/python
"""CLI:  check.py <property-id> [--tier quick|thorough] [--replay FILE]

exit 0  every obligation discharged (listed known findings are printed as KNOWN-FINDING lines)
exit 1  VIOLATION property=<id> replay=<path>   (an obligation definitely fails)
exit 2  ANALYSIS-ERROR ...                      (anchor vanished / construct outside the fragment / crash)
"""
import json
import os
import sys
import time
import traceback

HERE = os.path.dirname(os.path.abspath(__file__))
ROOT = os.path.dirname(HERE)
sys.path.insert(0, ROOT)

from sa.frontend import Program, AnalysisError          # noqa: E402
from sa.contracts import Contracts                      # noqa: E402
from sa.obligation import Ob, Ctx, load_known           # noqa: E402
from sa import props as PROPS                           # noqa: E402

EVIDENCE_DIR = os.path.join(ROOT, "evidence")


def run_property(pid, tier, seed, program=None, quiet=False):
    """Returns (obligations, ctx). Raises AnalysisError."""
    program = program or Program()
    ctx = Ctx(program, Contracts(program), tier, seed)
    mod = PROPS.get(pid)
    obs = mod.obligations(ctx)
    from sa import integrity
    obs = obs + integrity.obligations(ctx, pid)
    return obs, ctx, mod


def classify(obs, pid, known):
    """Mark obligations whose key is a listed known finding."""
    for o in obs:
        if o.status == "violation" and (pid, o.key) in known:
            o.status = "known"
            o.known_text = known[(pid, o.key)]
    return obs


def main(argv):
    if len(argv) < 2:
        print(__doc__)
        return 2
    pid = argv[1]
    tier = os.environ.get("VERIF_TIER", "quick")
    replay = None
    i = 2
    while i < len(argv):
        if argv[i] == "--tier":
            tier = argv[i + 1]; i += 2
        elif argv[i] == "--replay":
            replay = argv[i + 1]; i += 2
        else:
            i += 1
    seed = int(os.environ.get("VERIF_SEED", "0") or 0)
    t0 = time.time()
    try:
        known = load_known(os.path.join(ROOT, "KNOWN_FINDINGS.txt"))
        obs, ctx, mod = run_property(pid, tier, seed)
        obs = classify(obs, pid, known)
        if replay:
            with open(replay) as f:
                want = json.load(f)
            obs = [o for o in obs if o.id == want.get("obligation")]
            for o in obs:
                print(f"REPLAY {o.id} [{o.rule}] {o.where}: {o.status.upper()} {o.detail}")
            if not obs:
                print(f"REPLAY {want.get('obligation')}: this obligation does not arise on the current tree (the construct it was about is gone)")
            return 1 if any(o.status == "violation" for o in obs) else 0
        extra = dict(getattr(ctx, "extra", {}) or {})
        if tier == "thorough" and hasattr(mod, "thorough"):
            extra.update(mod.thorough(ctx, obs))
            for o in extra.pop("obligations", []):
                obs.append(o)
        if tier == "thorough":
            from sa import selftest
            extra.update(selftest.run(pid, ctx, seed))
            for o in extra.pop("obligations", []):
                obs.append(o)
        minimum = getattr(mod, "MIN_OBLIGATIONS", 1)
        if len([o for o in obs if o.rule != "selftest"]) < minimum:
            raise AnalysisError(f"only {len(obs)} obligations found for {pid}, expected at least {minimum} "
                                f"(a rule matching nothing must not pass vacuously)")
        wall = time.time() - t0
        viol = [o for o in obs if o.status == "violation"]
        inc = [o for o in obs if o.status == "inconclusive"]
        kn = [o for o in obs if o.status == "known"]
        os.makedirs(os.path.join(EVIDENCE_DIR, "replay"), exist_ok=True)
        replays = []
        for n, o in enumerate(viol):
            rp = os.path.join(EVIDENCE_DIR, "replay", f"{pid}-{n}.json")
            with open(rp, "w") as f:
                json.dump({"property": pid, "obligation": o.id, "rule": o.rule, "where": o.where, "key": o.key,
                           "detail": o.detail, "code": o.code[:4000], "reference": o.ref[:4000]}, f, indent=1)
            replays.append(rp)
        write_evidence(pid, tier, seed, mod, ctx, obs, wall, extra)
        for o in kn:
            print(f"KNOWN-FINDING: property={pid} {o.key} — {o.where}: {o.known_text}")
        for o in inc:
            print(f"INCONCLUSIVE {pid} {o.id} [{o.rule}] {o.where}: {o.detail[:600]}")
        for o, rp in zip(viol, replays):
            print(f"{pid} {o.id} [{o.rule}] {o.where}: {o.detail[:1200]}")
            print(f"VIOLATION property={pid} replay={rp}")
        ok = [o for o in obs if o.status == "ok"]
        print(f"{pid}: {len(obs)} obligations, {len(ok)} discharged, {len(kn)} known findings, "
              f"{len(viol)} violations, {len(inc)} inconclusive  ({wall:.2f}s, tier={tier})")
        if viol:
            return 1
        if inc:
            print(f"ANALYSIS-ERROR property={pid} {len(inc)} obligation(s) could not be decided (construct outside the analysable fragment)")
            return 2
        return 0
    except AnalysisError as e:
        print(f"ANALYSIS-ERROR property={pid} {e}")
        return 2
    except Exception:
        traceback.print_exc()
        print(f"ANALYSIS-ERROR property={pid} internal error in the checker (see traceback)")
        return 2


def write_evidence(pid, tier, seed, mod, ctx, obs, wall, extra):
    os.makedirs(EVIDENCE_DIR, exist_ok=True)
    real = [o for o in obs]
    ok = [o for o in real if o.status == "ok"]
    samples = [o.as_dict() for o in real[:400]]
    cov = {
        "explanation": getattr(mod, "EXPLANATION", ""),
        "obligations": len(real),
        "discharged": len(ok),
        "known_findings": len([o for o in real if o.status == "known"]),
        "inconclusive": len([o for o in real if o.status == "inconclusive"]),
        "evaluations": len(real),
        "distinct_nontrivial": len({(o.rule, o.where, o.id) for o in real}),
        "rule": "one case = one static obligation (rule instance at a named construct of /repo's current source); "
                "distinct = distinct (rule, construct, obligation id)",
        "samples": samples,
        "rules_applied": sorted({o.rule for o in real}),
        "functions_analysed": sorted(ctx.touched),
        "files": ctx.program.digests(),
        "program": ctx.program.counts(),
        "trusted_base": getattr(mod, "TRUSTED", []),
        "checker_cmd": f"/venv/bin/python sa/check.py {pid} --tier {tier}",
        "not_decided": getattr(mod, "NOT_DECIDED", []),
    }
    cov.update(extra or {})
    # what the references of this property declare about its domain / what it observes (part of the trusted base)
    marks = []
    try:
        for (q, v), (rm, rfi, meta) in sorted(ctx.contracts.refs.items(), key=lambda kv: (kv[0][0], kv[0][1] or "")):
            if pid not in meta.get("props", []):
                continue
            short = q.split(".", 1)[-1] if q.startswith("puan.") else q
            for k in ("domain", "types", "exclude", "cases", "observe", "ignore_stores"):
                if meta.get(k):
                    marks.append(f"{short}: {k} = {json.dumps(meta[k], sort_keys=True)}")
            import ast as _ast
            if any(isinstance(n, _ast.Name) and n.id == "__unspecified__" for n in _ast.walk(rfi.node)):
                marks.append(f"{short}: a path of the reference is left unspecified (inputs outside what the property quantifies over)")
            if pid not in (meta.get("raise_class") or ()):
                pass
            else:
                marks.append(f"{short}: exception class compared (raise_class)")
        if marks:
            marks.append("everywhere else: which exception class a refusal raises is not compared; logging / warnings / print are "
                         "not part of the result as long as computing their arguments is total and consumes no one-shot iterator")
    except Exception:
        pass
    ev = {
        "property_id": pid, "tier": tier if tier in ("quick", "thorough") else "quick", "seed": seed, "level": "other",
        "coverage": cov,
        "assumptions": list(getattr(mod, "ASSUMPTIONS", [])) + marks,
        "wall_s": round(wall, 3),
        "violations": len([o for o in real if o.status == "violation"]),
    }
    with open(os.path.join(EVIDENCE_DIR, f"{pid}.json"), "w") as f:
        json.dump(ev, f, indent=1, default=str)


if __name__ == "__main__":
    sys.exit(main(sys.argv))
