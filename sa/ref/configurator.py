# Reference (specification-style) definitions for puan/modules/configurator/__init__.py.
# NEVER imported or executed: parsed with `ast` and compared with the repository code by canonical form.
import itertools
import functools
import operator
import puan
import puan.logic.plog as pg
import puan.ndarray as pnd

TARGET = "puan.modules.configurator"
CONTRACTS = {
    "Any.__init__": {"types": {"default": ["NoneType", "list"]}, "props": ["C14", "C16", "C18"],
                     "why": "default given and mixed: Any(default item, inner=Any(complement)) with inner tagged prio -2 (= default -1, minus 1)"},
    "Any.to_json": {"domain": ["self.bounds.as_tuple() == (0, 1)", "self.variable.bounds.as_tuple() == (0, 1)", "self.bounds.constant is None", "self.variable.bounds.constant is None"], "props": ["C16"], "why": "restructured Any is written flat (default item + inner's children) with its default list"},
    "Any.from_json": {"domain": ["'bounds' not in data", "data.get('bounds') is None", "data.get('bounds', None) is None"], "types": {"data": ["dict"]}, "props": ["C16"], "why": "default list read back into default="},
    "Xor.__init__": {"types": {"default": ["NoneType", "list"]}, "props": ["C14", "C16", "C18"], "why": "the at-least-one half of the Xor becomes a defaulted Any"},
    "Xor.to_json": {"domain": ["self.bounds.as_tuple() == (0, 1)", "self.variable.bounds.as_tuple() == (0, 1)", "self.bounds.constant is None", "self.variable.bounds.constant is None"], "props": ["C16"], "why": "children taken from the at-most-one half; default list written"},
    "Xor.from_json": {"domain": ["'bounds' not in data", "data.get('bounds') is None", "data.get('bounds', None) is None"], "types": {"data": ["dict"]}, "props": ["C16"], "why": "default list read back into default="},
    "StingyConfigurator.__init__": {"props": ["C14", "C16", "C18"], "why": "a configurator is All(*rules) with the given id"},
    "StingyConfigurator.ge_polyhedron": {"props": ["C09", "C14", "C15"],
                                         "why": "asserted polyhedron (active=True), default prio vector over its A-columns, same variables/index; not memoised"},
    "StingyConfigurator.default_prios": {"props": ["C14", "C15"],
                                         "why": "id -> lowest prio tag over EVERY occurrence of that id (-1 where untagged): a tag belongs to the "
                                                "id, identical sub-propositions share an id and flatten() keeps only one object per id"},
    "_occurrences": {"props": ["C14", "C15"], "optional": True, "why": "a node and all its descendants, one entry per occurrence (no de-duplication)"},
    "StingyConfigurator.leafs": {"props": ["C09", "C15"], "why": "exact-type puan.variable members of flatten(); not memoised"},
    "StingyConfigurator.select": {"props": ["C14", "C15"], "why": "delegates to the polyhedron; only_leafs keeps ids of leafs()"},
    "StingyConfigurator.add": {"props": ["C18"],
                               "why": "raise if the id names an existing child, else StingyConfigurator(*(children + [p]), id=self.id)"},
    "StingyConfigurator.from_json": {"domain": ["'bounds' not in data", "data.get('bounds') is None", "data.get('bounds', None) is None"], "types": {"data": ["dict"]}, "props": ["C16"], "why": "children through plog.from_json with the configurator class list; id kept"},
    "StingyConfigurator.to_json": {"domain": ["self.bounds.as_tuple() == (0, 1)", "self.variable.bounds.as_tuple() == (0, 1)", "self.bounds.constant is None", "self.variable.bounds.constant is None"], "props": ["C16"], "why": "same format as All"},
}


def _occurrences(proposition):
    return itertools.chain([proposition], *[_occurrences(p) for p in getattr(proposition, "propositions", [])])


class Any(pg.Any):
    def __init__(self, *propositions, default=None, variable=None):
        self.default = [puan.variable(x) if type(x) == str else x for x in (default if default is not None else [])]
        if len(self.default) > 0 and self.default is not None and len(propositions) > 1:
            _default = self.default[0].id
            complement = [x for x in propositions if not x == _default]
            if len(complement) == len(propositions) or len(complement) == 0:
                pg.Any.__init__(self, *propositions, variable=variable)
            else:
                inner = pg.Any(*complement)
                inner.prio = getattr(inner, 'prio', -1) - 1          # strictly below the default fill (-1)
                pg.Any.__init__(self, *[x for x in propositions if x == _default], inner, variable=variable)
        else:
            pg.Any.__init__(self, *propositions, variable=variable)

    def to_json(self):
        if len(self.propositions) == 2 and any(hasattr(x, 'prio') for x in self.propositions):
            d = {
                **({} if self.generated_id else {"id": self.id}),
                "type": "Any",
                "propositions": [x.to_json() for x in self.propositions if not hasattr(x, 'prio')] +
                                [x.to_json() for x in next(x for x in self.propositions if hasattr(x, 'prio')).propositions],
            }
        else:
            d = pg.Any.to_json(self)
        d['default'] = [x.to_json() for x in self.default]
        return d

    @staticmethod
    def from_json(data, class_map):
        default = data.get("default", [])
        if default:
            default_item = None if len(default) == 0 else [puan.variable.from_json(x, [puan.variable]) for x in default]
            return Any(*[pg.from_json(p, class_map=class_map) for p in data.get('propositions', [])],
                       default=default_item, variable=data.get("id", None))
        else:
            return pg.Any.from_json(data, class_map)


class Xor(pg.Xor):
    def __init__(self, *propositions, default=None, variable=None):
        pg.Xor.__init__(self, *propositions, variable=variable)
        self.default = [puan.variable(x) if type(x) == str else x for x in (default if default is not None else [])]
        if self.default:
            i, any_proposition = next(x for x in enumerate(self.propositions) if x[1].value == 1)
            self.propositions[i] = Any(*any_proposition.propositions, default=default, variable=any_proposition.variable)

    def to_json(self):
        if self.default:
            d = {
                **({} if self.generated_id else {"id": self.id}),
                "type": "Xor",
                "propositions": [x.to_json() for x in next(x for x in self.propositions if type(x) == pg.AtMost).propositions],
                "default": [x.to_json() for x in self.default],
            }
        else:
            d = pg.Xor.to_json(self)
        return d

    @staticmethod
    def from_json(data, class_map):
        default = data.get("default", [])
        return Xor(*[pg.from_json(p, class_map=class_map) for p in data.get('propositions', [])],
                   default=None if len(default) == 0 else [puan.variable.from_json(x, [puan.variable]) for x in default],
                   variable=data.get("id", None))


class StingyConfigurator(pg.All):
    def __init__(self, *propositions, id=None):
        pg.All.__init__(self, *propositions, variable=id)

    @property
    def ge_polyhedron(self):
        polyhedron = self.to_ge_polyhedron(True)
        return pnd.ge_polyhedron_config(polyhedron, default_prio_vector=polyhedron.A.construct(self.default_prios),
                                        variables=polyhedron.variables, index=polyhedron.index)

    @property
    def default_prios(self):
        return dict((i, min(getattr(p, "prio", -1) for p in nodes))
                    for i, nodes in itertools.groupby(sorted(_occurrences(self), key=operator.attrgetter("id")),
                                                      key=operator.attrgetter("id")))

    def leafs(self):
        return sorted(set(itertools.chain(x for x in self.flatten() if type(x) == puan.variable)))

    def select(self, *prios, solver=None, only_leafs=False):
        res = self.ge_polyhedron.select(*prios, solver=solver)
        if only_leafs:
            leafs = [x.id for x in self.leafs()]
            res = itertools.starmap(lambda config, ov, sc: dict(kv for kv in config.items() if kv[0] in leafs), res)
        return res

    def add(self, proposition):
        if proposition.id in (x.id for x in self.propositions):
            raise Exception()
        return StingyConfigurator(*(self.propositions + [proposition]), id=self.id)

    def from_json(data):
        classes = [puan.variable, pg.AtLeast, pg.ExactlyOne, pg.AtMost, pg.All, Any, Xor, pg.Not, pg.XNor, pg.Imply]
        return StingyConfigurator(*[pg.from_json(p, class_map=classes) for p in data.get('propositions', [])],
                                  id=data.get('id', None))

    def to_json(self):
        return pg.All.to_json(self)
