# Reference (specification-style) definitions for puan/__init__.py.
# NEVER imported or executed: parsed with `ast` and compared with the repository code by canonical form.
import numpy
import dataclasses
import itertools

TARGET = "puan"
CONTRACTS = {
    "Bounds.__init__": {"props": ["C01", "C03", "C04", "C05", "C06", "C07", "C08", "C10", "C11", "C12", "C20"], "group": "E0",
                        "why": "class invariant lower <= upper (axiom min(b.as_tuple()) = b.lower)"},
    "Bounds.constant": {"props": ["C03", "C04", "C05", "C06", "C07", "C08"],
                        "why": "a bound is constant iff lower == upper, and then it is that value"},
    "Bounds.as_tuple": {"props": ["C01", "C03", "C04", "C05", "C06", "C07", "C08", "C10", "C11", "C12", "C20"],
                        "why": "(lower, upper) in that order - used as axiom by every kernel"},
    "Bounds.__eq__": {"props": ["C10", "C16", "C20"], "why": "bounds compare by (lower, upper)"},
    "Bounds.__iter__": {"props": ["C03", "C16"], "why": "iterating a Bounds yields lower then upper"},
    "Bounds.__hash__": {"props": [], "why": "(no longer an obligation, see AtLeast.__hash__) hash consistent with __eq__ (feeds the set / hash keys of validation)"},
    "variable.__hash__": {"props": [], "why": "(no longer an obligation, see AtLeast.__hash__) hash over id and bounds: equal definitions hash equally, so identical shared leaves are merged"},
    "variable.__eq__": {"props": ["C10", "C14", "C18", "C20"], "why": "equality by id (its adequacy as de-duplication key is judged by E7)"},
    "variable.__lt__": {"props": ["C10"], "why": "ordering by id (sorted children / flatten)"},
    "variable.__init__": {"props": ["C01", "C03", "C04", "C05", "C06", "C07", "C10", "C15", "C16", "C18", "C20"], "group": "E0",
                          # bounds as the annotation says (plus list, which the body accepts); a dtype only stands in for missing
                          # bounds - what a dtype *together with* explicit bounds means is not part of any property
                          "types": {"bounds": ["NoneType", "tuple", "list", "int", "puan.Bounds"], "dtype": ["NoneType", "str"]},
                          "exclude": [{"bounds": ["tuple", "list", "int", "puan.Bounds"], "dtype": ["str"]}],
                          "cases": ["dtype == 'bool'", "dtype == 'int'"],
                          "why": "int -> (v,v); Bounds kept; tuple -> Bounds(*t); default (0,1)"},
    "variable.assume": {"props": ["C01", "C03", "C04", "C05", "C06", "C07"], "why": "H3: leaf takes fixed[id] if named, else itself"},
    "variable.evaluate": {"props": ["C01", "C03", "C04", "C05", "C06"], "why": "K7: int -> (v,v), tuple -> Bounds(*v), Bounds -> itself, absent -> own bounds"},
    "variable.evaluate_propositions": {"props": ["C03"], "why": "K6 for leaves"},
    "variable.flatten": {"props": ["C01", "C03", "C04", "C05", "C10", "C14", "C15"], "why": "a leaf flattens to itself"},
    "variable.support_vector_variable": {"props": ["C01", "C20"], "why": "support column: id 0, bounds (1,1)"},
    "variable.to_json": {"props": ["C16"], "why": "bounds omitted iff (0,1)"},
    "variable.from_json": {"types": {"data": ["dict"], "data.get('bounds', {'lower': 0, 'upper': 1})": ["dict"]}, "props": ["C04", "C16"], "why": "reader default (0,1) agrees with writer omission"},
}


class Bounds:
    lower: int = default_min_int
    upper: int = default_max_int

    def __init__(self, lower, upper):
        if lower > upper:
            raise ValueError(f"upper bound must be higher than lower bound, got: ({lower}, {upper})")
        self.lower = lower
        self.upper = upper

    @property
    def constant(self):
        return self.lower if self.lower == self.upper else None

    def as_tuple(self):
        return (self.lower, self.upper)

    def __hash__(self):
        return hash(self.lower) + hash(self.upper)

    def __iter__(self):
        return iter([self.lower, self.upper])

    def __eq__(self, obj):
        return (self.lower, self.upper) == (obj.as_tuple() if issubclass(obj.__class__, Bounds) else obj)


class variable(Proposition):
    id: str
    bounds: Bounds

    def __init__(self, id, bounds=None, dtype=None):
        self.id = id
        if issubclass(bounds.__class__, Bounds):
            self.bounds = bounds
        elif issubclass(bounds.__class__, (int, numpy.integer)):
            self.bounds = Bounds(int(bounds), int(bounds))
        else:
            if dtype is not None:
                if bounds is not None:
                    if (dtype == "bool") != ((dtype == "bool") and (bounds == (0, 1))):
                        raise ValueError("Dtype is bool thus bounds must be (0, 1), got: {}".format(bounds))
                else:
                    bounds = {"int": default_int_bounds, "bool": (0, 1)}.get(dtype, (0, 1))
            elif bounds is None:
                bounds = (0, 1)
            if not issubclass(bounds.__class__, (tuple, numpy.ndarray, list)):
                raise ValueError(f"invalid data type for bounds, got `{bounds.__class__}`")
            self.bounds = Bounds(*bounds)

    def __hash__(self):
        return hash(self.id) + hash(self.bounds)

    def __lt__(self, other):
        return self.id < other.id

    def __eq__(self, other):
        return self.id == getattr(other, "id", other)

    def assume(self, fixed):
        return variable(id=self.id, bounds=fixed[self.id]) if self.id in fixed else self

    def evaluate(self, interpretation):
        if self.id in interpretation:
            val = interpretation.get(self.id)
            if issubclass(val.__class__, (int, numpy.integer)):
                return Bounds(val, val)
            elif issubclass(val.__class__, tuple):
                return Bounds(*val)
            elif issubclass(val.__class__, Bounds):
                return val
            else:
                raise ValueError(f"extracted value from interpretation is not a valid type, got `{val.__class__}` type")
        return self.bounds

    def evaluate_propositions(self, interpretation, out=lambda x: x):
        return {self.id: out(self.evaluate(interpretation))}

    def flatten(self):
        return [self]

    @staticmethod
    def support_vector_variable():
        return variable(0, bounds=Bounds(lower=1, upper=1))

    def to_json(self):
        d = dataclasses.asdict(self)
        if (self.bounds.lower, self.bounds.upper) == (0, 1):
            del d['bounds']
        return d

    @staticmethod
    def from_json(data, class_map=[]):
        bounds = data.get('bounds', {'lower': 0, 'upper': 1})
        return variable(id=data['id'], bounds=(bounds['lower'], bounds['upper']))
