# Reference (specification-style) definitions for puan/logic/plog/__init__.py.
# NEVER imported or executed: parsed with `ast` and compared with the repository code by canonical form.
# Pseudo functions understood by the lowering: __try__(expr, value_if_exception), __hole__("name").
import itertools
import functools
import operator
import graphlib
import hashlib
import pickle
import gzip
import base64
import numpy as np
import puan
import puan.ndarray as pnd
import puan_rspy as pr
from collections import Counter

TARGET = "puan.logic.plog"
CONTRACTS = {
    # ---- constructors (C04: every connective is its kernel form) ----------------------------------------
    "AtLeast.__init__": {"props": ["C01", "C03", "C04", "C05", "C06", "C07", "C08", "C10", "C14", "C15", "C16", "C18"], "group": "E0",
                         "attrs_for": {"C03": ["value", "sign", "propositions", "variable"], "C04": ["value", "sign", "propositions", "variable"],
                                       "C06": ["value", "sign", "propositions", "variable"], "C08": ["value", "sign", "propositions", "variable"],
                                       "C10": ["value", "sign", "propositions", "variable"], "C15": ["generated_id", "variable"],
                                       "C01": ["value", "sign", "propositions", "variable"], "C07": ["value", "sign", "propositions", "variable"],
                                       "C14": ["value", "sign", "propositions", "variable"], "C18": ["value", "sign", "propositions", "variable", "generated_id"]},
                         "why": "sign default = + iff value > 0; sign in {-1,+1} or raise; children = fresh sorted list, "
                                "strings become boolean variables; own variable bounds in {(0,0),(0,1),(1,1)}"},
    "AtMost.__init__": {"props": ["C04", "C16", "C18"], "why": "at most k  ==  -sum >= -k"},
    "All.__init__": {"props": ["C04", "C05", "C14", "C16", "C18"], "why": "conjunction == sum >= number of distinct children"},
    "Any.__init__": {"props": ["C04", "C14", "C16", "C18"], "why": "disjunction == sum >= 1"},
    "Xor.__init__": {"props": ["C04", "C14", "C16", "C18"], "why": "exactly one == (sum >= 1) and (at most 1)"},
    "XNor.__init__": {"props": ["C04", "C16"], "why": "not exactly one == not(sum >= 1) or not(at most 1)"},
    "Imply.__init__": {"props": ["C04", "C16", "C18"], "why": "c -> q == not(c) or q; atoms are wrapped in All() before negation"},
    "Not.__new__": {"props": ["C04", "C05", "C16"], "why": "Not(p) == negate(p), atoms wrapped in All()"},
    "Imply.from_cicJE": {"props": ["C04"], "why": "rule-type table, relation table (default ALL), 1-vs-many wrapping"},
    "from_json": {"types": {"data": ["dict"]}, "props": ["C04", "C16"], "why": "type string dispatches to the class of that name"},
    # ---- structure ---------------------------------------------------------------------------------------
    "AtLeast.id": {"props": ["C01", "C03", "C04", "C05", "C06", "C07", "C08", "C10", "C14", "C15", "C16", "C18"], "why": "id of a node is the id of its variable"},
    "AtLeast.bounds": {"props": ["C01", "C03", "C04", "C05", "C06", "C07", "C08", "C10", "C15"], "why": "bounds of a node are its variable's bounds"},
    "AtLeast.compound_propositions": {"props": ["C01", "C03", "C04", "C05", "C08", "C10"], "why": "children that are not puan.variable"},
    "AtLeast.atomic_propositions": {"props": ["C01", "C03", "C04", "C05", "C08", "C10"], "why": "children that are puan.variable"},
    "AtLeast.flatten": {"props": ["C01", "C03", "C04", "C05", "C10", "C14", "C15"], "why": "self + all descendants, de-duplicated, sorted"},
    "AtLeast._occurrences": {"props": ["C01", "C03", "C05", "C08", "C10", "C16"], "optional": True,
                             "why": "self + all descendants, one entry per occurrence, nothing de-duplicated (what the definition checks of errors() range over)"},
    "AtLeast._dependencies": {"props": ["C01", "C03", "C05", "C08", "C10", "C16"], "why": "(premise of every property stated over validated models) complete edge relation: (id, ids of all children) for every compound"},
    "AtLeast.errors": {"props": ["C01", "C03", "C05", "C08", "C10", "C16"], "observe": "emptiness",
                       "why": "(which models count as validated is the premise of C01/C03/C05/C08/C16) 4 labels <-> 4 checks; cycle check = TopologicalSorter(dict(_dependencies())).prepare() with exception => True; "
                              "definition-uniqueness checks compare the number of distinct definition keys with the number of distinct ids "
                              "(keys are holes judged by rule E7); duplicate edge check over (parent id, child id)"},
    "AtLeast.__hash__": {"props": [], "why": "(no longer an obligation: since fix 720688a errors() compares exact definition tuples over every occurrence; the hash only has to be a function of the object's fields, rule E7.hash-identity of C10) hash over (variable, sign, value, children): the definition key used by check #3"},
    "AtLeast.__lt__": {"props": ["C10"], "why": "ordering by id"},
    "AtLeast._id_generator": {"props": ["C10", "C16"], "why": "generated id = prefix + sha256(children ids + value + sign): deterministic in the definition"},
    "AtLeast.__eq__": {"props": ["C09", "C10"], "why": "equality used by ==; (its adequacy as a de-duplication key is judged by E7 under C10)"},
    # ---- evaluation kernel -------------------------------------------------------------------------------
    "AtLeast._equation_mm": {"props": ["C06", "C10"], "split": "sign", "why": "exact range of sign*sum over the children's box"},
    "AtLeast.equation_bounds": {"props": ["C06", "C10"], "why": "range of sign*sum - value"},
    "AtLeast.is_tautology": {"props": ["C06"], "why": "min(sign*sum) - value >= 0"},
    "AtLeast.is_contradiction": {"props": ["C06"], "why": "max(sign*sum) - value <= -1"},
    "AtLeast.assume": {"props": ["C01", "C03", "C04", "C05", "C06", "C07"], "split": "sign", "ignore_stores": ["variable"],
                       "why": "K1 own-id override, K2 constant short-circuit, K3 all children same dict, K4 interval kernel, "
                              "K5 keeps value/sign/id, H4 no child loses its definition"},
    "AtLeast.evaluate": {"props": ["C01", "C03", "C04", "C05", "C06", "C07"], "why": "evaluate = entry of own id in evaluate_propositions"},
    "AtLeast.evaluate_propositions": {"props": ["C01", "C03", "C04", "C05", "C06", "C07"], "why": "{x.id: out(x.bounds)} over flatten() of the assumed model"},
    "AtLeast.reduce": {"props": ["C08"], "split": "sign",
                       "why": "R1 own constant; R2 children reduced; R3 kernel; R4 constant result; R5 threshold minus sign*constants"},
    # ---- polyhedron bridge (C01) and solver bridge (C15) -----------------------------------------------------
    "AtLeast._to_pyrs_theory": {"props": ["C01", "C15"], "split": "sign",
                                "why": "one statement per flattened node: (index, bounds, AtLeastPy(child indices, bias=-value, sign))"},
    "AtLeast.to_ge_polyhedron": {"props": ["C01", "C14", "C15"], "split": "sign",
                                 "why": "same statements; result [b | A] with support variable first and column j+1 = node of rust column j"},
    "AtLeast.solve": {"props": ["C15"], "why": "objective over A-columns default 0; zip(A.variables, solution); virtual filter; None -> {}"},
    # ---- serialisation (C16 / C17) ------------------------------------------------------------------------------
    "AtLeast.to_json": {"domain": ["self.bounds.as_tuple() == (0, 1)", "self.variable.bounds.as_tuple() == (0, 1)", "self.bounds.constant is None", "self.variable.bounds.constant is None"], "props": ["C16"], "why": "type, propositions, value; id iff explicit; sign iff not the constructor default"},
    "AtLeast.from_json": {"domain": ["'bounds' not in data", "data.get('bounds') is None", "data.get('bounds', None) is None"], "types": {"data": ["dict"]}, "props": ["C04", "C16"], "why": "value default 1; children through the dispatcher; id; sign"},
    "AtMost.to_json": {"domain": ["self.bounds.as_tuple() == (0, 1)", "self.variable.bounds.as_tuple() == (0, 1)", "self.bounds.constant is None", "self.variable.bounds.constant is None"], "props": ["C16"], "why": "value written as -1*stored value (inverse of the constructor)"},
    "AtMost.from_json": {"domain": ["'bounds' not in data", "data.get('bounds') is None", "data.get('bounds', None) is None"], "types": {"data": ["dict"]}, "props": ["C04", "C16"], "why": "reads value/propositions/id through AtMost()"},
    "All.to_json": {"domain": ["self.bounds.as_tuple() == (0, 1)", "self.variable.bounds.as_tuple() == (0, 1)", "self.bounds.constant is None", "self.variable.bounds.constant is None"], "props": ["C16"], "why": "no value (re-derived from the children)"},
    "All.from_json": {"domain": ["'bounds' not in data", "data.get('bounds') is None", "data.get('bounds', None) is None"], "types": {"data": ["dict"]}, "props": ["C04", "C16"], "why": "children + id through All()"},
    "Any.to_json": {"domain": ["self.bounds.as_tuple() == (0, 1)", "self.variable.bounds.as_tuple() == (0, 1)", "self.bounds.constant is None", "self.variable.bounds.constant is None"], "props": ["C16"], "why": "no value (constant 1)"},
    "Any.from_json": {"domain": ["'bounds' not in data", "data.get('bounds') is None", "data.get('bounds', None) is None"], "types": {"data": ["dict"]}, "props": ["C04", "C16"], "why": "children + id through Any()"},
    "Imply.to_json": {"domain": ["self.bounds.as_tuple() == (0, 1)", "self.variable.bounds.as_tuple() == (0, 1)", "self.bounds.constant is None", "self.variable.bounds.constant is None"], "props": ["C16"], "why": "condition written re-negated, consequence as is"},
    "Imply.from_json": {"domain": ["'bounds' not in data", "data.get('bounds') is None", "data.get('bounds', None) is None"], "types": {"data": ["dict"]}, "props": ["C04", "C16"], "why": "condition/consequence/id through Imply()"},
    "Xor.to_json": {"domain": ["self.bounds.as_tuple() == (0, 1)", "self.variable.bounds.as_tuple() == (0, 1)", "self.bounds.constant is None", "self.variable.bounds.constant is None"], "props": ["C16"], "why": "children of the first (at-least-one) sub proposition"},
    "Xor.from_json": {"domain": ["'bounds' not in data", "data.get('bounds') is None", "data.get('bounds', None) is None"], "types": {"data": ["dict"]}, "props": ["C04", "C16"], "why": "cls(*children, variable=id)"},
    "XNor.to_json": {"domain": ["self.bounds.as_tuple() == (0, 1)", "self.variable.bounds.as_tuple() == (0, 1)", "self.bounds.constant is None", "self.variable.bounds.constant is None"], "props": ["C16"], "why": "children of the re-negated first sub proposition"},
    "XNor.from_json": {"domain": ["'bounds' not in data", "data.get('bounds') is None", "data.get('bounds', None) is None"], "types": {"data": ["dict"]}, "props": ["C04", "C16"], "why": "children + id through XNor()"},
    "Not.from_json": {"types": {"data": ["dict"]}, "props": ["C16", "C04"], "why": "Not(from_json(proposition))"},
    "AtLeast.to_b64": {"props": ["C17"], "why": "pickle.dumps(self) -> gzip -> base64"},
    "from_b64": {"props": ["C17"], "why": "inverse pipeline"},
}


class AtLeast(puan.Proposition):
    def __init__(self, value, propositions, variable=None, sign=None):
        self.generated_id = False
        self.value = value
        self.sign = sign
        if sign is None:
            self.sign = 1 if value > 0 else -1
        if not self.sign in [-1, 1]:
            raise Exception()
        if propositions is None:
            raise Exception()
        ps = list(propositions)
        self.propositions = sorted(itertools.chain(
            [x for x in ps if type(x) != str],
            [puan.variable(x) for x in ps if type(x) == str],
        ))
        if variable is None:
            self.variable = puan.variable(id=AtLeast._id_generator(self.propositions, value, sign))
            self.generated_id = True
        elif type(variable) == str:
            self.variable = puan.variable(id=variable, bounds=(0, 1))
        elif issubclass(variable.__class__, puan.variable):
            if not (variable.bounds.lower, variable.bounds.upper) in [(0, 0), (0, 1), (1, 1)]:
                raise ValueError()
            self.variable = variable
        else:
            raise ValueError()

    @property
    def id(self):
        return self.variable.id

    @property
    def bounds(self):
        return self.variable.bounds

    @property
    def compound_propositions(self):
        return (x for x in self.propositions if not issubclass(x.__class__, puan.variable))

    @property
    def atomic_propositions(self):
        return (x for x in self.propositions if issubclass(x.__class__, puan.variable))

    def flatten(self):
        return sorted(set(itertools.chain(
            [self],
            itertools.chain.from_iterable(c.flatten() for c in self.compound_propositions),
            self.atomic_propositions,
        )))

    def _occurrences(self):
        return [self] + list(self.atomic_propositions) + [y for c in self.compound_propositions for y in c._occurrences()]

    def _dependencies(self):
        return [(self.id, [x.id for x in self.atomic_propositions] + [x.id for x in self.compound_propositions])] + \
            list(itertools.chain.from_iterable(c._dependencies() for c in self.compound_propositions))

    def __hash__(self):
        return hash((self.variable, self.sign, self.value, tuple(self.propositions)))

    def __lt__(self, other):
        return self.id < other.id

    def _id_generator(propositions, value, sign, prefix="VAR"):
        return prefix + hashlib.sha256(str("".join(itertools.chain(
            (x.id for x in propositions if issubclass(x.__class__, puan.variable)),
            (x.variable.id for x in propositions if not issubclass(x.__class__, puan.variable)),
        )) + str(value) + str(sign)).encode()).hexdigest()

    def __eq__(self, other):
        if not type(self) == type(other):
            return False
        return (self.id == other.id) & (self.equation_bounds == other.equation_bounds) & (self.value == other.value)

    # ---------------------------------------------------------------- C10
    def errors(self):
        return list(itertools.compress(
            [PropositionValidationError.CIRCULAR_DEPENDENCIES,
             PropositionValidationError.AMBIVALENT_VARIABLE_DEFINITIONS,
             PropositionValidationError.AMBIVALENT_VARIABLE_DEFINITIONS,
             PropositionValidationError.NON_UNIQUE_SUB_PROPOSITION_SET],
            [
                # 1. circular dependencies: any exception of the topological sorter means "cyclic"
                __try__(not (None == graphlib.TopologicalSorter(dict(self._dependencies())).prepare()), True),
                # 2. every id has one variable definition: #distinct definitions == #distinct ids, over EVERY occurrence
                #    (flatten() keeps one object per id and cannot be the source of a definition check)
                not (len(set(__hole_key2__(v) for v in itertools.chain(
                        (x for x in self._occurrences() if issubclass(x.__class__, puan.variable)),
                        (x.variable for x in self._occurrences() if not issubclass(x.__class__, puan.variable)))))
                     == len(set(x.id for x in self._occurrences()))),
                # 3. every compound id has one compound definition
                not (len(set(__hole_key3__(c) for c in self._occurrences() if not issubclass(c.__class__, puan.variable)))
                     == len(set(c.id for c in self._occurrences() if not issubclass(c.__class__, puan.variable)))),
                # 4. no parent lists the same child twice
                any(n >= 2 for n in Counter(itertools.chain.from_iterable(
                    [__hole_key4__(x, y) for y in x.propositions]
                    for x in self.flatten() if not issubclass(x.__class__, puan.variable))).values()),
            ]))

    # ---------------------------------------------------------------- C06
    @property
    def _equation_mm(self):
        lo = sum(x.bounds.lower for x in self.propositions)
        hi = sum(x.bounds.upper for x in self.propositions)
        # exact attainable range of sign*sum over the box [lo, hi] of the children
        return (lo, hi) if self.sign > 0 else (-hi, -lo)

    @property
    def equation_bounds(self):
        return (self._equation_mm[0] - self.value, self._equation_mm[1] - self.value)

    @property
    def is_tautology(self):
        return self.equation_bounds[0] >= 0

    @property
    def is_contradiction(self):
        return self.equation_bounds[1] <= -1

    # ---------------------------------------------------------------- C03 / C06 / C07
    def assume(self, new_variable_bounds):
        if self.id in new_variable_bounds:
            # K1: own id named -> own variable takes the given bounds
            self.variable = puan.variable(id=self.id, bounds=new_variable_bounds.get(self.id))
        if self.bounds.constant is not None:
            return self.variable                      # K2
        children = [c.assume(new_variable_bounds) for c in self.propositions]      # K3
        # K4: interval kernel. sign=+1: [sum lo >= v, sum hi >= v]; sign=-1: [-sum hi >= v, -sum lo >= v]
        lo = sum(c.bounds.lower for c in children)
        hi = sum(c.bounds.upper for c in children)
        kernel = (lo >= self.value, hi >= self.value) if self.sign > 0 else (-hi >= self.value, -lo >= self.value)
        return AtLeast(value=self.value, propositions=children,                    # H4: children keep their definition
                       variable=puan.variable(self.id, bounds=kernel), sign=self.sign)

    def evaluate(self, interpretation):
        return self.evaluate_propositions(interpretation)[self.id]

    def evaluate_propositions(self, interpretation, out=lambda x: x):
        return dict((x.id, out(x.bounds)) for x in self.assume(interpretation).flatten())

    # ---------------------------------------------------------------- C08
    def reduce(self):
        if self.bounds.constant is not None:
            return self.variable                      # R1
        children = [c.reduce() for c in self.compound_propositions] + list(self.atomic_propositions)   # R2
        lo = sum(c.bounds.lower for c in children)
        hi = sum(c.bounds.upper for c in children)
        kernel = (lo >= self.value, hi >= self.value) if self.sign > 0 else (-hi >= self.value, -lo >= self.value)  # R3
        new_bounds = puan.Bounds(*kernel)
        if new_bounds.constant is not None:
            return puan.variable(id=self.id, bounds=new_bounds)                                    # R4
        fixed = sum(c.bounds.constant for c in children if c.bounds.constant is not None)
        return AtLeast(self.value - self.sign * fixed,                                             # R5
                       [c for c in children if c.bounds.constant is None],
                       variable=puan.variable(id=self.id, bounds=new_bounds), sign=self.sign)


    # ---------------------------------------------------------------- C01
    def _to_pyrs_theory(self):
        nodes = dict((x.id, x) for x in self.flatten())             # id -> definition
        index = dict(zip((x.id for x in nodes.values()), zip(range(len(nodes)), nodes.values())))   # id -> (statement index, node)
        return pr.TheoryPy([
            pr.StatementPy(
                index[x.id][0],
                (index[x.id][1].bounds.lower, index[x.id][1].bounds.upper),
                pr.AtLeastPy([index[y.id][0] for y in x.propositions], bias=-x.value,
                             sign=pr.SignPy.Positive if x.sign == 1 else pr.SignPy.Negative)
                if not issubclass(x.__class__, puan.variable) else None,
            ) for x in nodes.values()
        ]), index

    def to_ge_polyhedron(self, active=False, reduced=False):
        nodes = dict((x.id, x) for x in self.flatten())
        index = dict(zip((x.id for x in nodes.values()), zip(range(len(nodes)), nodes.values())))   # id -> (statement index, node)
        rs = pr.TheoryPy([
            pr.StatementPy(
                index[x.id][0],
                (index[x.id][1].bounds.lower, index[x.id][1].bounds.upper),
                pr.AtLeastPy([index[y.id][0] for y in x.propositions], bias=-x.value,
                             sign=pr.SignPy.Positive if x.sign == 1 else pr.SignPy.Negative)
                if not issubclass(x.__class__, puan.variable) else None,
            ) for x in nodes.values()
        ]).to_ge_polyhedron(active, reduced)
        by_index = dict(index.values())                                 # statement index -> node
        return pnd.ge_polyhedron(
            np.hstack((np.array(rs.b).reshape(-1, 1), np.array(np.array_split(rs.a.val, rs.a.nrows)))),
            variables=[puan.variable.support_vector_variable()] + [by_index.get(v.id) for v in rs.variables],
        )

    # ---------------------------------------------------------------- C15
    def solve(self, objectives, solver=None, try_reduce_before=False, include_virtual_variables=False):
        if solver is None:
            theory, index = self._to_pyrs_theory()
            by_index = dict(index.values())
            return itertools.starmap(
                lambda solution, objective_value, status_code: (
                    dict(itertools.starmap(
                        lambda k, v: (by_index[k].id, v),
                        (kv for kv in solution.items()
                         if (True if issubclass(by_index[kv[0]].__class__, puan.variable)
                             else (include_virtual_variables if by_index.get(kv[0]).generated_id else True))))),
                    objective_value, status_code),
                theory.solve([dict(zip((index[k][0] for k in objective), objective.values())) for objective in objectives],
                             try_reduce_before),
            )
        else:
            polyhedron = self.to_ge_polyhedron(active=True, reduced=try_reduce_before)
            return itertools.starmap(
                lambda solution, objective_value, status_code: (
                    dict((vs[0].id, vs[1]) for vs in zip(polyhedron.A.variables, solution)
                         if (True if issubclass(vs[0].__class__, puan.variable)
                             else (include_virtual_variables if vs[0].generated_id else True)))
                    if solution is not None else {},
                    objective_value, status_code),
                solver(polyhedron, [polyhedron.A.construct(objective, lambda x: 0) for objective in objectives]),
            )

    # ---------------------------------------------------------------- C16 / C17
    def to_json(self):
        d = {'type': self.__class__.__name__,
             'propositions': [p.to_json() for p in self.propositions],
             'value': self.value}
        if not self.generated_id:
            d['id'] = self.id
        if self.sign != (1 if self.value > 0 else -1):
            d['sign'] = int(self.sign)
        return d

    @staticmethod
    def from_json(data, class_map):
        return AtLeast(value=data.get('value', 1),
                       propositions=[from_json(p, class_map=class_map) for p in data.get('propositions', [])],
                       variable=data.get('id', None),
                       sign=data.get('sign', None))

    def to_b64(self, str_decoding='utf8'):
        return base64.b64encode(gzip.compress(pickle.dumps(self, protocol=pickle.HIGHEST_PROTOCOL), mtime=0)).decode(str_decoding)


class AtMost(AtLeast):
    def __init__(self, value, propositions, variable=None):
        AtLeast.__init__(self, value=-value, propositions=propositions, variable=variable, sign=-1)

    @staticmethod
    def from_json(data, class_map):
        return AtMost(value=data.get('value', 1),
                      propositions=[from_json(p, class_map=class_map) for p in data.get('propositions', [])],
                      variable=data.get('id', None))

    def to_json(self):
        d = AtLeast.to_json(self)
        d['value'] = -self.value
        return d


class All(AtLeast):
    def __init__(self, *propositions, variable=None):
        AtLeast.__init__(self, value=len(set(propositions)), propositions=propositions, variable=variable)

    @staticmethod
    def from_json(data, class_map):
        return All(*[from_json(p, class_map=class_map) for p in data.get('propositions', [])], variable=data.get('id', None))

    def to_json(self):
        d = AtLeast.to_json(self)
        del d['value']
        d['propositions'] = [p.to_json() for p in self.propositions]
        return d


class Any(AtLeast):
    def __init__(self, *propositions, variable=None):
        AtLeast.__init__(self, value=1, propositions=propositions, variable=variable)

    @staticmethod
    def from_json(data, class_map):
        return Any(*[from_json(p, class_map=class_map) for p in data.get('propositions', [])], variable=data.get('id', None))

    def to_json(self):
        d = AtLeast.to_json(self)
        del d['value']
        d['propositions'] = [p.to_json() for p in self.propositions]
        return d


class Imply(Any):
    def __init__(self, condition, consequence, variable=None):
        if type(condition) == str or issubclass(condition.__class__, puan.variable):
            condition = All(condition)
        self.condition = condition.negate()
        # stored state is normalised: a str consequence becomes its variable (to_json / negate are called on it later)
        self.consequence = puan.variable(consequence) if type(consequence) == str else consequence
        Any.__init__(self, self.condition, self.consequence, variable=variable)

    @staticmethod
    def from_json(data, class_map):
        if not 'consequence' in data:
            raise Exception()
        if 'condition' in data and 'consequence' in data:
            return Imply(from_json(data.get('condition'), class_map), from_json(data.get('consequence'), class_map),
                         variable=data.get('id', None))
        else:
            return from_json(data.get('consequence'), class_map)

    def to_json(self):
        d = {'type': self.__class__.__name__,
             'condition': self.condition.negate().to_json(),
             'consequence': self.consequence.to_json()}
        if not self.generated_id:
            d['id'] = self.id
        return d

    @staticmethod
    def from_cicJE(data, id_ident="id", cmp2prop=None):
        rule_type_map = {
            "REQUIRES_ALL": lambda x, id: All(*x, variable=id),
            "REQUIRES_ANY": lambda x, id: Any(*x, variable=id),
            "ONE_OR_NONE": lambda x, id: AtMost(value=1, propositions=x, variable=id),
            "FORBIDS_ALL": lambda x, id: Any(*x, variable=id).negate(),
            "REQUIRES_EXCLUSIVELY": lambda x, id: Xor(*x, variable=id),
        }
        if cmp2prop is None:
            cmp2prop = lambda x: puan.variable(id=x[id_ident], bounds=[(0, 1), (puan.default_min_int, puan.default_max_int)]["dtype" in x and x['type'] == "int"])
        relation_fn = lambda x: [Any, All][x.get("relation", "ALL") == "ALL"]
        consequence = rule_type_map[data.get('consequence', {}).get("ruleType")](
            map(cmp2prop, data.get('consequence', {}).get('components')),
            data.get("consequence", {}).get("id", None))
        if "condition" in data:
            outer = relation_fn(data['condition'])
            inner = [relation_fn(x)(*map(cmp2prop, x.get('components', [])), variable=x.get("id", None))
                     for x in data['condition'].get("subConditions", [])]
            if len(inner) > 0:
                return Imply(condition=outer(*inner, variable=data.get('condition', {}).get("id", None)) if len(inner) > 1 else inner[0],
                             consequence=consequence, variable=data.get("id", None))
            else:
                return consequence
        else:
            return consequence


class Xor(All):
    def __init__(self, *propositions, variable=None):
        All.__init__(self, AtLeast(value=1, propositions=propositions), AtMost(value=1, propositions=propositions), variable=variable)

    @classmethod
    def from_json(cls, data, class_map):
        return cls(*[from_json(p, class_map=class_map) for p in data.get('propositions', [])], variable=data.get('id', None))

    def to_json(self):
        d = {'type': self.__class__.__name__,
             'propositions': [p.to_json() for p in self.propositions[0].propositions] if len(self.propositions) > 0 else []}
        if not self.generated_id:
            d['id'] = self.id
        return d


class ExactlyOne(Xor):
    pass


class Not:
    def __new__(self, proposition):
        return (All(proposition) if type(proposition) == str or issubclass(proposition.__class__, puan.variable) else proposition).negate()

    @staticmethod
    def from_json(data, class_map):
        if not 'proposition' in data:
            raise Exception()
        return Not(from_json(data['proposition'], class_map=class_map))


class XNor(Any):
    def __init__(self, *propositions, variable=None):
        # the members as given are kept (sorted, ids as variables): the two halves hold them in negated form only
        self.members = AtLeast(value=1, propositions=propositions).propositions
        Any.__init__(self, AtLeast(value=1, propositions=propositions).negate(), AtMost(value=1, propositions=propositions).negate(),
                     variable=variable)

    @staticmethod
    def from_json(data, class_map):
        return XNor(*[from_json(p, class_map=class_map) for p in data.get('propositions', [])], variable=data.get('id', None))

    def to_json(self):
        d = {'type': self.__class__.__name__,
             'propositions': [p.to_json() for p in self.members]}
        if not self.generated_id:
            d['id'] = self.id
        return d


def from_json(data, class_map=[puan.variable, AtLeast, AtMost, All, Any, Xor, ExactlyOne, Not, XNor, Imply]):
    classes = {c.__name__: c for c in class_map}
    if 'type' not in data:
        if 'propositions' in data:
            return classes["AtLeast"].from_json(data, class_map)
        else:
            return classes["variable"].from_json(data, class_map)
    elif data['type'] in ["Proposition", "Variable"]:
        return classes["variable"].from_json(data, class_map)
    elif data['type'] in classes:
        return classes[data['type']].from_json(data, class_map)
    else:
        raise Exception()


def from_b64(base64_str):
    try:
        return pickle.loads(gzip.decompress(base64.b64decode(base64_str.encode())))
    except:
        raise Exception()
