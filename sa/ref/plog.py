# Reference (specification-style) definitions for puan/logic/plog/__init__.py.
# NEVER imported or executed: parsed with `ast` and compared with the repository code by canonical form.
# Pseudo functions understood by the lowering: __try__(expr, value_if_exception), __hole__("name").
import itertools
import functools
import operator
import graphlib
import pickle
import gzip
import base64
import numpy as np
import puan
import puan.ndarray as pnd
import puan_rspy as pr
from collections import Counter

TARGET = "puan.logic.plog"
CONTRACTS = {
    # ---- constructors (C04: every connective is its kernel form) ----------------------------------------
    "AtLeast.__init__": {"props": ["C03", "C04", "C05", "C06", "C08", "C10", "C16"], "group": "E0",
                         "why": "sign default = + iff value > 0; sign in {-1,+1} or raise; children = fresh sorted list, "
                                "strings become boolean variables; own variable bounds in {(0,0),(0,1),(1,1)}"},
    "AtMost.__init__": {"props": ["C04"], "why": "at most k  ==  -sum >= -k"},
    "All.__init__": {"props": ["C04", "C18"], "why": "conjunction == sum >= number of distinct children"},
    "Any.__init__": {"props": ["C04"], "why": "disjunction == sum >= 1"},
    "Xor.__init__": {"props": ["C04"], "why": "exactly one == (sum >= 1) and (at most 1)"},
    "XNor.__init__": {"props": ["C04"], "why": "not exactly one == not(sum >= 1) or not(at most 1)"},
    "Imply.__init__": {"props": ["C04"], "why": "c -> q == not(c) or q; atoms are wrapped in All() before negation"},
    "Not.__new__": {"props": ["C04", "C05"], "why": "Not(p) == negate(p), atoms wrapped in All()"},
    "Imply.from_cicJE": {"props": ["C04"], "why": "rule-type table, relation table (default ALL), 1-vs-many wrapping"},
    "from_json": {"props": ["C04", "C16"], "why": "type string dispatches to the class of that name"},
    # ---- structure ---------------------------------------------------------------------------------------
    "AtLeast.id": {"props": ["C01", "C03", "C10", "C16"], "why": "id of a node is the id of its variable"},
    "AtLeast.bounds": {"props": ["C01", "C03", "C06", "C07", "C08"], "why": "bounds of a node are its variable's bounds"},
    "AtLeast.compound_propositions": {"props": ["C01", "C03", "C05", "C08", "C10"], "why": "children that are not puan.variable"},
    "AtLeast.atomic_propositions": {"props": ["C01", "C03", "C05", "C08", "C10"], "why": "children that are puan.variable"},
    "AtLeast.flatten": {"props": ["C01", "C03", "C10", "C15"], "why": "self + all descendants, de-duplicated, sorted"},
    "AtLeast._dependencies": {"props": ["C10"], "why": "complete edge relation: (id, ids of all children) for every compound"},
    # ---- evaluation kernel -------------------------------------------------------------------------------
    "AtLeast._equation_mm": {"props": ["C06"], "split": "sign", "why": "exact range of sign*sum over the children's box"},
    "AtLeast.equation_bounds": {"props": ["C06"], "why": "range of sign*sum - value"},
    "AtLeast.is_tautology": {"props": ["C06"], "why": "min(sign*sum) - value >= 0"},
    "AtLeast.is_contradiction": {"props": ["C06"], "why": "max(sign*sum) - value <= -1"},
    "AtLeast.assume": {"props": ["C03", "C06", "C07"], "split": "sign",
                       "why": "K1 own-id override, K2 constant short-circuit, K3 all children same dict, K4 interval kernel, "
                              "K5 keeps value/sign/id, H4 no child loses its definition"},
    "AtLeast.evaluate": {"props": ["C03"], "why": "evaluate = entry of own id in evaluate_propositions"},
    "AtLeast.evaluate_propositions": {"props": ["C03"], "why": "{x.id: out(x.bounds)} over flatten() of the assumed model"},
    "AtLeast.reduce": {"props": ["C08"], "split": "sign",
                       "why": "R1 own constant; R2 children reduced; R3 kernel; R4 constant result; R5 threshold minus sign*constants"},
}


class AtLeast:
    def __init__(self, value, propositions, variable=None, sign=None):
        self.generated_id = False
        self.value = value
        self.sign = sign
        if sign is None:
            self.sign = 1 if value > 0 else -1
        if not self.sign in [-1, 1]:
            raise Exception()
        if propositions is None:
            raise Exception()
        ps = list(propositions)
        self.propositions = sorted(itertools.chain(
            [x for x in ps if type(x) != str],
            [puan.variable(x) for x in ps if type(x) == str],
        ))
        if variable is None:
            self.variable = puan.variable(id=AtLeast._id_generator(self.propositions, value, sign))
            self.generated_id = True
        elif type(variable) == str:
            self.variable = puan.variable(id=variable, bounds=(0, 1))
        elif issubclass(variable.__class__, puan.variable):
            if not (variable.bounds.lower, variable.bounds.upper) in [(0, 0), (0, 1), (1, 1)]:
                raise ValueError()
            self.variable = variable
        else:
            raise ValueError()

    @property
    def id(self):
        return self.variable.id

    @property
    def bounds(self):
        return self.variable.bounds

    @property
    def compound_propositions(self):
        return (x for x in self.propositions if not issubclass(x.__class__, puan.variable))

    @property
    def atomic_propositions(self):
        return (x for x in self.propositions if issubclass(x.__class__, puan.variable))

    def flatten(self):
        return sorted(set(itertools.chain(
            [self],
            itertools.chain.from_iterable(c.flatten() for c in self.compound_propositions),
            self.atomic_propositions,
        )))

    def _dependencies(self):
        return [(self.id, [x.id for x in self.atomic_propositions] + [x.id for x in self.compound_propositions])] + \
            list(itertools.chain.from_iterable(c._dependencies() for c in self.compound_propositions))

    # ---------------------------------------------------------------- C06
    @property
    def _equation_mm(self):
        lo = sum(x.bounds.lower for x in self.propositions)
        hi = sum(x.bounds.upper for x in self.propositions)
        # exact attainable range of sign*sum over the box [lo, hi] of the children
        return (lo, hi) if self.sign > 0 else (-hi, -lo)

    @property
    def equation_bounds(self):
        return (self._equation_mm[0] - self.value, self._equation_mm[1] - self.value)

    @property
    def is_tautology(self):
        return self.equation_bounds[0] >= 0

    @property
    def is_contradiction(self):
        return self.equation_bounds[1] <= -1

    # ---------------------------------------------------------------- C03 / C06 / C07
    def assume(self, new_variable_bounds):
        if self.id in new_variable_bounds:
            # K1: own id named -> own variable takes the given bounds
            self.variable = puan.variable(id=self.id, bounds=new_variable_bounds.get(self.id))
        if self.bounds.constant is not None:
            return self.variable                      # K2
        children = [c.assume(new_variable_bounds) for c in self.propositions]      # K3
        # K4: interval kernel. sign=+1: [sum lo >= v, sum hi >= v]; sign=-1: [-sum hi >= v, -sum lo >= v]
        lo = sum(c.bounds.lower for c in children)
        hi = sum(c.bounds.upper for c in children)
        kernel = (lo >= self.value, hi >= self.value) if self.sign > 0 else (-hi >= self.value, -lo >= self.value)
        return AtLeast(value=self.value, propositions=children,                    # H4: children keep their definition
                       variable=puan.variable(self.id, bounds=kernel), sign=self.sign)

    def evaluate(self, interpretation):
        return self.evaluate_propositions(interpretation)[self.id]

    def evaluate_propositions(self, interpretation, out=lambda x: x):
        return dict((x.id, out(x.bounds)) for x in self.assume(interpretation).flatten())

    # ---------------------------------------------------------------- C08
    def reduce(self):
        if self.bounds.constant is not None:
            return self.variable                      # R1
        children = [c.reduce() for c in self.compound_propositions] + list(self.atomic_propositions)   # R2
        lo = sum(c.bounds.lower for c in children)
        hi = sum(c.bounds.upper for c in children)
        kernel = (lo >= self.value, hi >= self.value) if self.sign > 0 else (-hi >= self.value, -lo >= self.value)  # R3
        new_bounds = puan.Bounds(*kernel)
        if new_bounds.constant is not None:
            return puan.variable(id=self.id, bounds=new_bounds)                                    # R4
        fixed = sum(c.bounds.constant for c in children if c.bounds.constant is not None)
        return AtLeast(self.value - self.sign * fixed,                                             # R5
                       [c for c in children if c.bounds.constant is None],
                       variable=puan.variable(id=self.id, bounds=new_bounds), sign=self.sign)
