# Reference (specification-style) definitions for puan/ndarray/__init__.py.
# NEVER imported or executed: parsed with `ast` and compared with the repository code by canonical form.
import base64
import gzip
import pickle
import numpy
import functools
import itertools
import operator
import math
import sys
import puan
import puan_rspy as pr

TARGET = "puan.ndarray"
CONTRACTS = {
    # ---- id / position bridges (C20) -----------------------------------------------------------------------
    "variable_ndarray.__new__": {"props": ["C01", "C11", "C17", "C19", "C20"], "why": "array view + variables (columns) + index (rows); shape must agree"},
    "variable_ndarray._default_variable_list": {"props": ["C20"], "why": "support variable first (if any column), then boolean variables 1..n-1"},
    "variable_ndarray.__array_finalize__": {"props": ["C17"], "why": "views / copies carry variables and index"},
    "variable_ndarray.variable_indices": {"props": ["C20"], "cases": ["variable_dtype == puan.Dtype.BOOL"],
                                          "why": "BOOL: columns whose bounds are (0,1); INT: the others (a partition)"},
    "variable_ndarray.boolean_variable_indices": {"props": ["C20"], "why": "= variable_indices(BOOL)"},
    "variable_ndarray.integer_variable_indices": {"props": ["C20"], "why": "= variable_indices(INT)"},
    "variable_ndarray.construct": {"types": {"dtype": ["type"]}, "props": ["C14", "C15", "C20"],
                                   "why": "per column: given value, else callable default, else lower bound (int dtype) / nan"},
    "ge_polyhedron.__new__": {"props": ["C01", "C11", "C17", "C19", "C20"], "why": "forwards to variable_ndarray.__new__"},
    "ge_polyhedron.A": {"props": ["C01", "C11", "C12", "C14", "C15", "C19", "C20"],
                        "why": "matrix without column 0, variables without variables[0], same index"},
    "ge_polyhedron.b": {"props": ["C01", "C11", "C12", "C15", "C19", "C20"], "why": "column 0"},
    "ge_polyhedron.to_linalg": {"props": ["C11", "C19", "C20"], "why": "(A, b)"},
    "integer_ndarray.from_list": {"props": ["C20"], "why": "1-based position in lst for listed ids, 0 otherwise; nested lists recurse"},
    "boolean_ndarray.from_list": {"props": ["C20"], "why": "1 for listed ids, 0 otherwise; nested lists/tuples recurse"},
    "boolean_ndarray.to_list": {"props": ["C20"], "why": "variables at the 1-entries; rows recurse"},
    # ---- bounds (C12) ------------------------------------------------------------------------------------------
    "ge_polyhedron.column_bounds": {"props": ["C11", "C12"], "why": "2 x n array: lowers, uppers of A.variables"},
    "ge_polyhedron.A_max": {"props": ["C11", "C12"], "why": "entry-wise max of a_ij*x_j over the box: lo*[A<0]*A + hi*[A>0]*A"},
    "ge_polyhedron.A_min": {"props": ["C11", "C12"], "why": "entry-wise min of a_ij*x_j over the box: lo*[A>0]*A + hi*[A<0]*A"},
    "ge_polyhedron.row_bounds": {"props": ["C11", "C12"], "why": "(Σ min(lo*A,hi*A) - b, Σ max(lo*A,hi*A) - b)"},
    "ge_polyhedron.n_row_combinations": {"props": ["C12"], "why": "Π over non-zero coefficients of (hi - lo + 1)"},
    "ge_polyhedron.tighten_column_bounds": {"props": ["C11", "C12"], "domain": ["self.shape[0] != 0", "self.A.shape[0] != 0", "len(self) != 0"],
                                            "why": "implied bounds a_j x_j >= b - Σ_{k≠j} max(a_k x_k): floor(-(row_ub - A_max)/A), "
                                                   "lower candidates where A>0, upper where A<0, combined by max/min, written only if tighter"},
    # ---- reduction (C11) -------------------------------------------------------------------------------------
    "ge_polyhedron.reducable_columns_approx": {"props": ["C11"], "why": "forced value where tightened lb == ub, nan elsewhere"},
    "ge_polyhedron.reduce_columns": {"props": ["C11"], "why": "b' = b - Σ fixed A[:,j]*v_j; fixed columns and their variables dropped; index kept"},
    "ge_polyhedron.reducable_rows": {"props": ["C11"], "why": "row redundant iff min of its lhs over the box >= b"},
    "ge_polyhedron.reduce_rows": {"props": ["C11"], "why": "rows and index filtered by the same mask"},
    "ge_polyhedron.reducable_rows_and_columns": {"props": ["C11"], "why": "fixpoint loop; merges write only into still-undecided positions"},
    "ge_polyhedron.reduce": {"props": ["C11"], "why": "rows then columns on a copy"},
    # ---- point classification (C19) -----------------------------------------------------------------------
    "ge_polyhedron.separable": {"types": {"points": ["numpy.ndarray"]}, "domain": ["points.ndim != 0"], "props": ["C19"], "why": "per point: exists row with A x < b"},
    "ge_polyhedron.ineq_separate_points": {"types": {"points": ["numpy.ndarray"]}, "domain": ["points.ndim != 0"], "props": ["C19"], "why": "per row: exists point with A x < b"},
    "ge_polyhedron.ineqs_satisfied": {"types": {"points": ["numpy.ndarray"]}, "domain": ["points.ndim != 0"], "props": ["C19"], "why": "per point: all rows A x >= b"},
    # ---- priority compression (C13) -------------------------------------------------------------------------
    "integer_ndarray.reduce2d": {"props": ["C13", "C14"], "why": "keeps the first / last non-zero per column, zeros elsewhere"},
    "integer_ndarray.ranking": {"props": ["C13"], "why": "dense ranking loop"},
    "integer_ndarray.ndint_compress": {"props": ["C13", "C14"], "why": "method dispatch, batch recursion, closed forms, shadow gather/scatter"},
    # ---- configurator polyhedron (C14/C15/C17) ----------------------------------------------------------------
    "ge_polyhedron_config.__new__": {"props": ["C14", "C15", "C17"], "why": "default prio vector attached; default -1 per A column"},
    "ge_polyhedron_config._vectors_from_prios": {"props": ["C14", "C15"],
                                                 "why": "per request [default row, user row (0 where unnamed)] stacked in that order, shadow-compressed on axis 0"},
    "ge_polyhedron_config.select": {"props": ["C14", "C15"], "raise_class": ["C15"], "why": "objectives over A columns; solver gets the full polyhedron; ids zipped with solution; None -> {}; exceptions -> InfeasibleError"},
    "ge_polyhedron_config.to_b64": {"props": ["C17"], "why": "[array, default_prio_vector, variables, index, dtype] pickled"},
    "ge_polyhedron_config.from_b64": {"props": ["C17"], "why": "positional splat into __new__"},
}


class variable_ndarray(numpy.ndarray):
    def __new__(cls, input_array, variables=[], index=[], dtype=numpy.int64):
        arr = numpy.asarray(input_array, dtype=dtype).view(cls)
        if len(variables) == 0:
            variables = variable_ndarray._default_variable_list(arr.shape[arr.ndim - 1])
        if len(index) == 0:
            index = [puan.variable(i, bounds=(0, 1)) for i in range(arr.shape[arr.ndim - 2])]
        arr.variables = numpy.array(variables)
        arr.index = numpy.array(index)
        if (arr.index.size, arr.variables.size) != (arr.shape[arr.ndim - 2], arr.shape[arr.ndim - 1]):
            raise ValueError()
        return arr

    @staticmethod
    def _default_variable_list(n, default_bounds_type="bool"):
        return [puan.variable.support_vector_variable() for _ in range(numpy.clip(n, a_min=0, a_max=1))] + \
            [puan.variable(i, dtype=default_bounds_type) for i in range(1, n)]

    def __array_finalize__(self, obj):
        if obj is None:
            return
        self.variables = getattr(obj, 'variables', None)
        self.index = getattr(obj, 'index', None)

    def variable_indices(self, variable_dtype):
        is_bool = 1 * (variable_dtype == puan.Dtype.BOOL)
        is_int = 1 * (variable_dtype == puan.Dtype.INT)
        if is_bool + is_int != 1:
            raise ValueError()
        return numpy.array(sorted(
            iv[0] for iv in enumerate(self.variables)
            if ((iv[1].bounds.lower, iv[1].bounds.upper) == (0, 1) if variable_dtype == puan.Dtype.BOOL
                else (iv[1].bounds.lower, iv[1].bounds.upper) != (0, 1))))

    @property
    def boolean_variable_indices(self):
        return self.variable_indices(puan.Dtype.BOOL)

    @property
    def integer_variable_indices(self):
        return self.variable_indices(puan.Dtype.INT)

    def construct(self, variable_values, default_value=None, dtype=numpy.int64):
        return numpy.array(
            [variable_values.get(v.id) if v.id in variable_values
             else (default_value(v) if callable(default_value)
                   else (v.bounds.lower if issubclass(dtype, (int, numpy.integer)) else numpy.nan))
             for v in self.variables],
            dtype=dtype)


class ge_polyhedron(variable_ndarray):
    def __new__(cls, input_array, variables=[], index=[], dtype=numpy.int64):
        return variable_ndarray.__new__(cls, input_array, variables=variables, index=index, dtype=dtype)

    @property
    def A(self):
        return integer_ndarray(self[tuple([slice(None, None)] * (self.ndim - 1) + [slice(1, None)])], self.variables[1:], self.index)

    @property
    def b(self):
        return integer_ndarray(self.T[0])

    def to_linalg(self):
        return self.A, self.b

    def column_bounds(self):
        return integer_ndarray([(v.bounds.lower, v.bounds.upper) for v in self.A.variables]).T

    @property
    def A_max(self):
        lo_hi = self.column_bounds()
        if lo_hi.size == 0:
            raise Exception()
        return lo_hi[0] * (self.A < 0) * self.A + lo_hi[1] * (self.A > 0) * self.A

    @property
    def A_min(self):
        lo_hi = self.column_bounds()
        if lo_hi.size == 0:
            raise Exception()
        return lo_hi[0] * (self.A > 0) * self.A + lo_hi[1] * (self.A < 0) * self.A

    def row_bounds(self):
        lo_hi = self.column_bounds()
        terms = integer_ndarray([lo_hi[0] * self.A, lo_hi[1] * self.A])
        return integer_ndarray([terms.min(axis=0).sum(axis=1) - self.b, terms.max(axis=0).sum(axis=1) - self.b]).T

    @property
    def n_row_combinations(self):
        lo_hi = self.column_bounds()
        return numpy.array(numpy.prod((self.A != 0) * (lo_hi[1] - lo_hi[0] + 1) + (self.A == 0) * 1, axis=1))

    def tighten_column_bounds(self):
        cm_bnds = self.column_bounds()
        with numpy.errstate(all='ignore'):
            # a_ij x_j >= b_i - Σ_{k≠j} max(a_ik x_k)  =  -(row_ub_i - A_max_ij)
            res = numpy.floor(-(self.row_bounds().T[1].reshape(-1, 1) - self.A_max) / self.A)
            res[res == numpy.inf] = puan.default_max_int
            res[res == -numpy.inf] = puan.default_min_int
            lbs = res.copy()
            ubs = res.copy()
            lbs[self.A <= 0] = puan.default_min_int          # a lower bound only follows from a positive coefficient
            ubs[self.A >= 0] = puan.default_max_int          # an upper bound only from a negative one
            lb_mx = numpy.max(lbs, axis=0)
            ub_mn = numpy.min(ubs, axis=0)
            tighter_lb = lb_mx > cm_bnds[0]                                 # never widen
            tighter_ub = ub_mn < cm_bnds[1]
            cm_bnds[0, tighter_lb] = lb_mx[tighter_lb]
            cm_bnds[1, tighter_ub] = ub_mn[tighter_ub]
        return cm_bnds

    def reducable_columns_approx(self):
        A, b = ge_polyhedron(self, getattr(self, "variables", []), getattr(self, "index", [])).to_linalg()
        res = numpy.nan * numpy.zeros(A.shape[1], dtype=float)
        lb, ub = self.tighten_column_bounds()
        if (lb == ub).size > 0:
            res[lb == ub] = lb[lb == ub]
        return res

    def reduce_columns(self, columns_vector):
        A, b = self.to_linalg()
        fixed = ~numpy.isnan(columns_vector)
        return ge_polyhedron(
            numpy.append((b - (A[:, fixed] * columns_vector[fixed]).sum(axis=1)).reshape(-1, 1),
                         numpy.delete(A, numpy.argwhere(fixed).T[0], 1), axis=1),
            self.variables[[True] + numpy.isnan(columns_vector).tolist()],
            self.index).astype(numpy.int64)

    def reducable_rows(self):
        return boolean_ndarray(self.A_min.sum(axis=1) >= self.b)

    def reduce_rows(self, rows_vector):
        keep = numpy.array(rows_vector) == 0
        return ge_polyhedron(self[keep], getattr(self, "variables", []), self.index[keep] if hasattr(self, "index") else [])

    def reducable_rows_and_columns(self):
        _M = self.copy()
        red_cols = ge_polyhedron.reducable_columns_approx(_M)
        red_rows = ge_polyhedron.reducable_rows(_M) * 1
        full_cols = numpy.zeros(_M.A.shape[1], dtype=int) * numpy.nan
        full_rows = boolean_ndarray(numpy.zeros(_M.shape[0], dtype=int))
        while (~numpy.isnan(red_cols)).any() | red_rows.any():
            _M = ge_polyhedron.reduce_columns(_M, red_cols)
            full_cols[numpy.isnan(full_cols)] = red_cols
            if _M.shape[1] <= 1:
                break
            red_rows = ge_polyhedron.reducable_rows(_M) * 1
            _M = ge_polyhedron.reduce_rows(_M, red_rows)
            full_rows[full_rows == 0] = red_rows
            if _M.shape[0] == 0:
                break
            red_cols = ge_polyhedron.reducable_columns_approx(_M)
            red_rows = ge_polyhedron.reducable_rows(_M) * 1
        return full_rows, full_cols

    def reduce(self, rows_vector=None, columns_vector=None):
        gp = self.copy()
        if rows_vector is not None:
            gp = ge_polyhedron.reduce_rows(gp, rows_vector)
        if columns_vector is not None:
            gp = ge_polyhedron.reduce_columns(gp, columns_vector)
        return gp

    # ---------------------------------------------------------------- C19
    def separable(self, points):
        if points.ndim > 2:
            return numpy.array([self.separable(p) for p in points])
        elif points.ndim == 2:
            A, b = ge_polyhedron(self).to_linalg()
            return numpy.array((numpy.matmul(A, points.T) < b.reshape(-1, 1)).any(axis=0))
        elif points.ndim == 1:
            return ge_polyhedron.separable(self, numpy.array([points]))[0]
        else:
            return __unspecified__       # C19 quantifies over points arrays of dimension 1, 2 and 3

    def ineq_separate_points(self, points):
        if points.ndim > 2:
            return boolean_ndarray([self.ineq_separate_points(p) for p in points])
        elif points.ndim == 2:
            A, b = self.to_linalg()
            return boolean_ndarray((numpy.matmul(A, points.T) < b.reshape(-1, 1)).any(axis=1))
        elif points.ndim == 1:
            return ge_polyhedron.ineq_separate_points(self, numpy.array([points]))
        else:
            return __unspecified__       # C19 quantifies over points arrays of dimension 1, 2 and 3

    def ineqs_satisfied(self, points):
        if points.ndim > 2:
            return boolean_ndarray([self.ineqs_satisfied(p) for p in points])
        elif points.ndim == 2:
            return boolean_ndarray((numpy.matmul(self.A, points.T) >= self.b[:, None]).all(axis=0))
        elif points.ndim == 1:
            return ge_polyhedron.ineqs_satisfied(self, numpy.array([points]))[0] == 1
        else:
            return __unspecified__       # C19 quantifies over points arrays of dimension 1, 2 and 3


class integer_ndarray(variable_ndarray):
    def reduce2d(self, method="first", axis=0):
        if not self.ndim == 2:
            raise ValueError()
        self = numpy.swapaxes(self, 0, axis)
        col_idxs = numpy.arange(self.shape[1])
        self_reduced = integer_ndarray(numpy.zeros(self.shape))
        if method == "first":
            self_reduced[(self != 0).argmax(axis=0).flatten(), col_idxs] = 1
            self_reduced = (self_reduced * self)
        elif method == "last":
            self_reduced[(self[::-1] != 0).argmax(axis=0).flatten(), col_idxs] = 1
            self_reduced = (self_reduced * self[::-1])[::-1]
        else:
            raise ValueError()
        return numpy.swapaxes(self_reduced, 0, axis)

    def ranking(self):
        if self.ndim > 1:
            return integer_ndarray([integer_ndarray.ranking(r) for r in self])
        else:
            idx_sorted = numpy.argsort(self)
            self = self[idx_sorted]
            current_ranking = 1 if (self[0] > 0) else 0
            current_val = self[0]
            for i in range(len(self)):
                if not current_val == self[i]:
                    current_ranking += 1
                    current_val = self[i]
                self[i] = current_ranking
            return self[numpy.argsort(idx_sorted)]

    def ndint_compress(self, method="min", axis=None):
        if not isinstance(axis, int):
            self = integer_ndarray([self.flatten()])
            axis = 0
        if method == "last":
            self = numpy.swapaxes(self, 0, axis)
            if self.ndim > 2:
                return numpy.swapaxes(integer_ndarray([integer_ndarray.ndint_compress(x, method=method, axis=0) for x in self]), 0, axis)
            elif self.ndim == 2:
                return numpy.flipud(self).ndint_compress(method="first", axis=0)
            else:
                return numpy.swapaxes(self, 0, axis - 1)
        elif method == "first":
            self = numpy.swapaxes(self, 0, axis)
            if self.ndim > 2:
                return numpy.swapaxes(integer_ndarray([integer_ndarray.ndint_compress(x, method=method, axis=0) for x in self]), 0, axis)
            elif self.ndim == 2:
                return numpy.swapaxes(self[numpy.argmax(self != 0, axis=0), numpy.arange(self.shape[1])], 0, axis - 1)
            else:
                return numpy.swapaxes(self, 0, axis - 1)
        elif method == "min":
            tmp = self.copy()
            tmp[tmp == 0] = sys.maxsize
            tmp = numpy.min(tmp, axis=axis)
            tmp[(self == 0).all(axis=axis)] = 0
            return tmp
        elif method == "max":
            return numpy.max(self, axis=axis)
        elif method == "prio":
            self = numpy.swapaxes(self, 0, axis)
            if self.ndim > 2:
                return numpy.swapaxes(integer_ndarray([integer_ndarray.ndint_compress(x, method=method, axis=0) for x in self]), 0, axis)
            elif self.ndim == 2:
                last = integer_ndarray(self).reduce2d(method="last", axis=0)
                mag = numpy.abs(last)
                mag = mag[~numpy.all(mag == 0, axis=1)]
                if mag.shape[0] == 0:
                    return integer_ndarray(numpy.zeros(self.shape[1], dtype=numpy.int64))
                mag = integer_ndarray(mag.ranking())
                mag = mag + ((mag.T > 0) * numpy.concatenate(([0], (numpy.cumsum(mag.max(axis=1)))))[:-1]).T
                prio = mag.ndint_compress(method="first", axis=0)
                prio[self.ndint_compress(method="last", axis=0) < 0] = prio[self.ndint_compress(method="last", axis=0) < 0] * -1
                return prio
            else:
                return self.ranking()
        elif method == "rank":
            self = numpy.swapaxes(self, 0, axis)
            if self.ndim > 2:
                return numpy.swapaxes(integer_ndarray([integer_ndarray.ndint_compress(x, method=method, axis=0) for x in self]), 0, axis)
            elif self.ndim == 2:
                return integer_ndarray(self.ndint_compress(method="prio", axis=0).ranking())
            else:
                return self.ranking()
        elif method == "shadow":
            self = numpy.swapaxes(self, 0, axis)
            if self.ndim > 2:
                return numpy.swapaxes(integer_ndarray([integer_ndarray.ndint_compress(x, method=method, axis=0) for x in self]), 0, axis)
            elif self.ndim == 2:
                last = integer_ndarray(self).reduce2d(method="last", axis=0).astype(self.dtype)     # later rows win
                mag = numpy.abs(last)
                mag = mag[~numpy.all(mag == 0, axis=1)]
                if mag.shape[0] == 0:
                    return numpy.zeros(self.shape[1], dtype=self.dtype)
                order = numpy.argsort(mag)
                rows = numpy.arange(mag.shape[0]).reshape(-1, 1)
                mag_sorted = mag[rows, order]
                oba = mag * numpy.array([math.pow(-1, r) for r in range(mag.shape[0])], dtype=self.dtype).reshape(-1, 1)
                oba = oba[rows, order]
                oba = oba[oba != 0].flatten()
                mag_sorted[mag_sorted != 0] = pr.py_optimized_bit_allocation_64(oba.astype(numpy.int64))
                mag = mag_sorted[rows, numpy.argsort(order)]                                   # inverse permutation
                compressed = mag.max(axis=0)
                compressed[last.min(axis=0) < 0] = compressed[last.min(axis=0) < 0] * -1          # sign of the kept value
                return numpy.swapaxes(compressed, 0, axis - 1)
            else:
                return integer_ndarray.ndint_compress(numpy.array([self], dtype=numpy.int64), method=method, axis=0)
        else:
            raise ValueError()

    @staticmethod
    def from_list(lst, context):
        if len(lst) == 0:
            result = []
        elif isinstance(lst[0], list):
            result = [integer_ndarray.from_list(l, context=context) for l in lst]
        else:
            result = [1 * (x in lst) and (1 + lst.index(x)) for x in context]
        return integer_ndarray(result)


class boolean_ndarray(variable_ndarray):
    @staticmethod
    def from_list(lst, context):
        if len(lst) == 0:
            result = []
        elif isinstance(lst[0], list) or isinstance(lst[0], tuple):
            result = [boolean_ndarray.from_list(l, context=context) for l in lst]
        else:
            result = [1 * (x in lst) for x in context]
        return boolean_ndarray(result)

    def to_list(self, skip_virtual_variables=False):
        if self.ndim == 1:
            return numpy.array(self.variables)[self == 1].tolist()
        else:
            return [boolean_ndarray.to_list(r, skip_virtual_variables=skip_virtual_variables) for r in self]


class ge_polyhedron_config(ge_polyhedron):
    def __new__(cls, input_array, default_prio_vector=None, variables=[], index=[], dtype=numpy.int64):
        arr = ge_polyhedron.__new__(cls, input_array, variables=variables, index=index, dtype=dtype)
        arr.default_prio_vector = default_prio_vector if default_prio_vector is not None else -numpy.ones((arr.A.shape[1]))
        return arr

    def _vectors_from_prios(self, prios):
        return integer_ndarray(numpy.array(
            [[self.default_prio_vector, [y.get(v.id, 0) for v in self.A.variables]] for y in prios]
        )).ndint_compress(method="shadow", axis=0)

    def select(self, *prios, solver=None):
        try:
            variables = self.A.variables
            objectives = self._vectors_from_prios(prios)
            id_map = dict(zip(range(self.A.shape[1]), variables))
            if solver is None:
                id_map_rev = dict(zip((x.id for x in id_map.values()), id_map.keys()))
                solutions = [
                    (s.x, s.z, s.status_code) for s in
                    pr.PolyhedronPy(
                        pr.MatrixPy(self.A.flatten().tolist(), *self.A.shape),
                        self.b.tolist(),
                        [pr.VariableFloatPy(id_map_rev[v.id], (float(v.bounds.lower), float(v.bounds.upper))) for v in variables],
                        list(range(self.A.shape[0])),
                    ).solve([dict(zip(id_map.keys(), v)) for v in objectives])
                ]
            else:
                solutions = solver(self, list(objectives))
            return itertools.starmap(
                lambda solution, objective_value, status_code: (
                    dict(zip((v.id for v in variables), solution)) if solution is not None else {},
                    objective_value, status_code),
                solutions)
        except Exception as e:
            raise InfeasibleError()

    def to_b64(self, str_decoding='utf8'):
        return base64.b64encode(gzip.compress(
            pickle.dumps([self, self.default_prio_vector, self.variables, self.index, self.dtype], protocol=pickle.HIGHEST_PROTOCOL),
            mtime=0)).decode(str_decoding)

    @staticmethod
    def from_b64(base64_str):
        try:
            return ge_polyhedron_config(*pickle.loads(gzip.decompress(base64.b64decode(base64_str.encode()))))
        except:
            raise Exception()
