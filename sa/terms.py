"""IR: lambda-terms over Python expressions, lowering of function bodies to one nested term,
combinator lowering (maz / functools / operator / itertools / builtins), beta-reduction,
constant folding, de Bruijn alpha-normalisation, polynomial canonical forms, structural diff.

A term is a nested tuple whose first element is the kind.
"""
import ast
import itertools

from .frontend import dotted, AnalysisError

KINDS = {
    'const', 'var', 'bv', 'glob', 'call', 'lam', 'attr', 'if', 'tuple', 'list', 'dict', 'set', 'binop', 'cmp',
    'not', 'and', 'or', 'inv', 'sub', 'slice', 'fstr', 'star', 'dstar', 'map', 'filter', 'concat', 'flat',
    'zip', 'try', 'ret', 'raise', 'loop', 'opaque', 'upd', 'setitem', 'delitem', 'after_try', 'eff', 'phi',
    'loopout', 'break', 'continue', 'poly', 'ge0', 'eq0', 'ne0', 'strcat', 'handler', 'blk', 'kw', 'meta',
    'neg', 'setattr', 'expr', 'yield', 'seq', 'pretry', 'intry',
}


def C(v): return ('const', v)
def V(n): return ('var', n)
def G(n): return ('glob', n)
def call(f, args=(), kw=()): return ('call', f, tuple(args), tuple(kw))
def lam(ps, body): return ('lam', tuple(ps), body)
def attr(o, *names):
    for n in names:
        o = ('attr', o, n)
    return o


NONE = C(None)
_fresh = itertools.count()


def fresh(p='x'):
    return f"{p.split('#')[0]}#{next(_fresh)}"


def is_node(t):
    return isinstance(t, tuple) and len(t) > 0 and isinstance(t[0], str) and t[0] in KINDS


def children(t):
    """Yield direct sub-terms."""
    if not is_node(t) or t[0] in ('const', 'var', 'glob', 'bv', 'opaque'):
        return
    for x in t[1:]:
        if is_node(x):
            yield x
        elif isinstance(x, tuple):
            for y in _flat(x):
                yield y


def _flat(x):
    for y in x:
        if is_node(y):
            yield y
        elif isinstance(y, tuple):
            yield from _flat(y)


def mapt(f, t):
    """Rebuild t with f applied to each direct sub-term."""
    if not is_node(t) or t[0] in ('const', 'var', 'glob', 'bv', 'opaque'):
        return t

    def g(x):
        if is_node(x):
            return f(x)
        if isinstance(x, tuple):
            return tuple(g(y) for y in x)
        return x
    return (t[0],) + tuple(g(x) for x in t[1:])


def walk(t):
    yield t
    for c in children(t):
        yield from walk(c)


def subst(t, env):
    """Capture-free because every lambda parameter is globally fresh."""
    if not env or not is_node(t):
        return t
    k = t[0]
    if k == 'var':
        return env.get(t[1], t)
    if k in ('const', 'glob', 'bv', 'opaque'):
        return t
    return mapt(lambda x: subst(x, env), t)


def replace(t, fn):
    """Bottom-up replace: fn(term) -> new term or None."""
    if not is_node(t):
        return t
    t2 = mapt(lambda x: replace(x, fn), t)
    r = fn(t2)
    return t2 if r is None else r


def contains(t, pred):
    return any(pred(x) for x in walk(t))


# ------------------------------------------------------------------------------------------------
# expression lowering
# ------------------------------------------------------------------------------------------------
CMPOPS = {'Eq': 'Eq', 'NotEq': 'NotEq', 'Lt': 'Lt', 'LtE': 'LtE', 'Gt': 'Gt', 'GtE': 'GtE', 'Is': 'Is',
          'IsNot': 'IsNot', 'In': 'In', 'NotIn': 'NotIn'}

# properties inlined on `self` so that attribute stores are seen through them
INLINE_SELF_PROPS = {'bounds', 'id'}


class Scope:
    def __init__(self, program, module, cls=None, func=None, inline_depth=0):
        self.program = program
        self.module = module
        self.cls = cls
        self.func = func
        self.inline_depth = inline_depth
        self.root_cls = cls              # class of the object `self` denotes (kept through inlined module-level helpers)


class Lower:
    """Lowers expressions given an environment (name -> term) and an attribute store."""

    def __init__(self, scope, locals_, env=None, store=None):
        self.scope = scope
        self.locals = set(locals_)
        self.env = dict(env or {})
        self.store = dict(store or {})

    def clone(self):
        lw = Lower(self.scope, self.locals, self.env, self.store)
        return lw

    # -- names
    def e_Name(self, n):
        if n.id in self.env:
            return self.env[n.id]
        if n.id in self.locals:
            return V(n.id)
        q = self.scope.program.qualify(self.scope.module, n.id)
        return self._glob(q)

    def _glob(self, q):
        prog = self.scope.program
        ec = prog.enum_constants()
        if q in ec and isinstance(ec[q], (int, str)):
            return ('const', ec[q])
        # a module-level name bound once to a literal (a named constant) is that literal
        mod, _, name = q.rpartition(".")
        if mod in prog.classes and named_class_constant(prog, prog.classes[mod], name) is not None:
            return named_class_constant(prog, prog.classes[mod], name)
        m = prog.modules.get(mod)
        if m is not None and q not in CONTRACTED:
            v = named_module_constant(prog, m, name)
            if v is not None:
                return v
        return G(q)

    def e_Attribute(self, n):
        d = dotted(n)
        if d is not None:
            head = d.split('.')[0]
            if head not in self.locals and head not in self.env:
                m = self.scope.module
                if head in m.imports or head in m.classes or head in m.functions or head in m.assigns:
                    return self._glob(self.scope.program.qualify(m, d))
                if head in ('dict', 'list', 'str', 'int', 'set', 'tuple'):
                    return G(d)
        # super().<property>  ->  the base class's property function applied to self
        if isinstance(n.value, ast.Call) and isinstance(n.value.func, ast.Name) and n.value.func.id == 'super' \
                and self.scope.cls is not None and self._super_args_ok(n.value):
            defining = self.scope.func.cls if self.scope.func is not None and self.scope.func.cls is not None else self.scope.cls
            if n.value.args:
                defining = self.scope.program.classes[self.scope.program.qualify(self.scope.module, dotted(n.value.args[0]))]
            target = self.scope.program.lookup_method(self.scope.cls, n.attr, after=defining) \
                if defining in self.scope.program.mro(self.scope.cls) else None
            if target is not None and target.is_property:
                return self.bind(G(target.qualname), target, [self.env.get('self', V('self'))], [], skip=0)
        obj = self.e(n.value)
        return self.attr_read(obj, n.attr)

    def attr_read(self, obj, name):
        key = (obj, name)
        if key in self.store:
            return self.store[key]
        self_cls = self.scope.cls if self.scope.cls is not None else self.scope.root_cls
        if obj == V('self') and self_cls is not None and name in INLINE_SELF_PROPS \
                and self.scope.inline_depth < 4:
            fi = self.scope.program.lookup_method(self_cls, name)
            if fi is not None and fi.is_property:
                body = [s for s in fi.node.body if not _is_doc(s) and not isinstance(s, ast.Pass) and not _trivial_diag(s)]
                if len(body) == 1 and isinstance(body[0], ast.Return):
                    sc = Scope(self.scope.program, fi.module, fi.cls, fi, self.scope.inline_depth + 1)
                    # evaluated in the *current* store (stores to self.<x> are visible through the property)
                    sub = Lower(sc, {'self'}, {}, self.store)
                    # but "self" there is our self
                    return sub.e(body[0].value)
        prog = self.scope.program
        # a class-level literal constant read through self / cls (never stored on instances anywhere in the package)
        if obj in (V('self'), V('cls')) and self.scope.cls is not None:
            for c in prog.mro(self.scope.cls):
                if name in c.class_attrs:
                    v = named_class_constant(prog, c, name)
                    if v is not None:
                        return v
                    break
        # a property that exactly one class of the package defines and that no reference covers: an extracted helper
        if self.scope.inline_depth < 3 and not name.startswith('__'):
            cands = [f for f in prog.methods_named(name)]
            if len(cands) == 1 and cands[0].is_property and cands[0].qualname not in CONTRACTED \
                    and not any(name in c.class_attrs for c in prog.classes.values()) and name not in prog.stored_attr_names():
                fi = cands[0]
                body = [s_ for s_ in fi.node.body if not _is_doc(s_)]
                sub = FuncLower(prog, fi)
                sub.scope.inline_depth = self.scope.inline_depth + 1
                lw = Lower(sub.scope, sub.locals, {fi.params[0]: obj} if fi.params else {}, {})
                t = _expr_of_block(sub.block(body, lw, ()))
                if t is not None:
                    return t
        return ('attr', obj, name)

    def e(self, n):
        m = getattr(self, 'e_' + type(n).__name__, None)
        if m is None:
            return ('opaque', type(n).__name__ + ':' + ast.dump(n)[:200])
        return m(n)

    def e_Constant(self, n):
        return C(n.value)

    def _args(self, n):
        args = []
        for a in n.args:
            args.append(('star', self.e(a.value)) if isinstance(a, ast.Starred) else self.e(a))
        kw = []
        for k in n.keywords:
            if k.arg is None:
                args.append(('dstar', self.e(k.value)))
            else:
                kw.append((k.arg, self.e(k.value)))
        return args, kw

    def e_Call(self, n):
        args, kw = self._args(n)
        # super().m(...)  ->  resolved base-class function applied to self
        if isinstance(n.func, ast.Attribute) and isinstance(n.func.value, ast.Call) and isinstance(n.func.value.func, ast.Name) \
                and n.func.value.func.id == 'super' and self.scope.cls is not None and self._super_args_ok(n.func.value):
            defining = self.scope.func.cls if self.scope.func is not None and self.scope.func.cls is not None else self.scope.cls
            if n.func.value.args:           # super(Cls, self): start after Cls
                defining = self.scope.program.classes[self.scope.program.qualify(self.scope.module, dotted(n.func.value.args[0]))]
            target = self.scope.program.lookup_method(self.scope.cls, n.func.attr, after=defining) \
                if defining in self.scope.program.mro(self.scope.cls) else None
            if target is not None:
                first = [self.env.get('self', V('self'))] if n.func.attr != '__new__' else []
                return self.bind(G(target.qualname), target, first + args, kw, skip=0)
            return call(attr(call(G('super')), n.func.attr), args, kw)
        fn = self.e(n.func)
        inl = self._inline(n, fn, args, kw)
        if inl is not None:
            return inl
        return call(fn, args, kw)

    def _super_args_ok(self, sup):
        """super() or super(<a class of the package>, self)"""
        if sup.keywords or len(sup.args) not in (0, 2):
            return False
        if not sup.args:
            return True
        d = dotted(sup.args[0])
        q = self.scope.program.qualify(self.scope.module, d) if d else None
        return q in self.scope.program.classes and isinstance(sup.args[1], ast.Name) and sup.args[1].id == 'self' \
            and 'self' not in self.env

    def _inline(self, n, fn, args, kw):
        t = self._inline_block(n, fn, args, kw)
        return None if t is None else _expr_of_block(t)

    def _inline_block(self, n, fn, args, kw):
        """Inline a call of an *unspecified* repository helper (a function no reference covers): an extracted helper is
        transparent, and whatever it does is judged at its call site."""
        prog = self.scope.program
        if self.scope.inline_depth >= 3 or any(a[0] in ('star', 'dstar') for a in args):
            return None
        target, first = None, []
        if fn[0] == 'glob' and fn[1] in prog.functions:
            target = prog.functions[fn[1]]
            if target.cls is not None and (target.is_classmethod or target.is_property):
                return None        # (a plain function reached through its class takes its arguments as given)
        elif fn[0] == 'attr' and fn[1] == V('self') and self.scope.cls is not None and isinstance(n.func, ast.Attribute):
            target = prog.lookup_method(self.scope.cls, fn[2])
            if target is None or target.is_property or target.is_static or target.is_classmethod:
                return None
            if any(fn[2] in c.methods for c in prog.subclasses(self.scope.cls, strict=True)):
                return None
            first = [V('self')]
        if target is None or (target.qualname in CONTRACTED and target.qualname not in INLINE_ALWAYS) or target is self.scope.func:
            return None
        if self.scope.func is not None and target.qualname == self.scope.func.qualname:
            return None
        if target.node.args.vararg or target.node.args.kwarg or target.decorator_list_nontrivial():
            return None
        if target.name.startswith('__') and target.name.endswith('__'):
            return None
        a = target.node.args
        names = [x.arg for x in a.posonlyargs + a.args]
        actual = first + list(args)
        if len(actual) > len(names):
            return None
        bind = dict(zip(names, actual))
        for k, v in kw:
            if k not in names or k in bind:
                return None
            bind[k] = v
        dl = Lower(Scope(prog, target.module, target.cls, target), set())
        for prm, d in zip(names[len(names) - len(a.defaults):], a.defaults):
            bind.setdefault(prm, dl.e(d))
        if set(bind) != set(names):
            return None
        sub = FuncLower(prog, target)
        sub.scope.inline_depth = self.scope.inline_depth + 1
        if target.cls is None:
            sub.scope.root_cls = self.scope.cls if self.scope.cls is not None else self.scope.root_cls
        lw = Lower(sub.scope, sub.locals, dict(bind), {})
        body = [s for s in target.node.body if not _is_doc(s)]
        return sub.block(body, lw, ())

    def bind(self, fn, fi, args, kw, skip):
        return bind_call(self.scope.program, fn, fi, args, kw, skip)

    def e_Lambda(self, n):
        return self._lambda(n.args, lambda sub: sub.e(n.body))

    def _lambda(self, a, body_fn):
        names = [x.arg for x in a.posonlyargs + a.args]
        if a.vararg or a.kwarg or a.kwonlyargs:
            return ('opaque', 'lambda-with-varargs')
        ren = {p: fresh(p) for p in names}
        sub = Lower(self.scope, self.locals | set(names), self.env, self.store)
        for p in names:
            sub.env[p] = V(ren[p])
        # defaults: bind as meta (rare: only used to freeze values)
        return lam([ren[p] for p in names], body_fn(sub))

    def e_IfExp(self, n):
        return ('if', self.e(n.test), self.e(n.body), self.e(n.orelse))

    def _display(self, n, kind):
        """a display with starred elements is the concatenation of its parts ([a, *xs, b] = [a] + list(xs) + [b])"""
        if not any(isinstance(x, ast.Starred) for x in n.elts):
            return (kind, tuple(self.e(x) for x in n.elts))
        parts, run = [], []
        for x in n.elts:
            if isinstance(x, ast.Starred):
                if run:
                    parts.append(('list', tuple(run)))
                    run = []
                parts.append(self.e(x.value))
            else:
                run.append(self.e(x))
        if run:
            parts.append(('list', tuple(run)))
        seq = ('concat', tuple(parts))
        return seq if kind == 'list' else call(G(kind), [seq])

    def e_Tuple(self, n):
        return self._display(n, 'tuple')

    def e_List(self, n):
        return self._display(n, 'list')

    def e_Set(self, n):
        return self._display(n, 'set')

    def e_Dict(self, n):
        items = []
        for k, v in zip(n.keys, n.values):
            if k is None:
                items.append(('dstar', self.e(v)))
            else:
                items.append(('kw', self.e(k), self.e(v)))
        return ('dict', tuple(items))

    def e_BinOp(self, n):
        return ('binop', type(n.op).__name__, self.e(n.left), self.e(n.right))

    def e_UnaryOp(self, n):
        if isinstance(n.op, ast.Not):
            return ('not', self.e(n.operand))
        if isinstance(n.op, ast.USub):
            return ('binop', 'Mult', C(-1), self.e(n.operand))
        if isinstance(n.op, ast.UAdd):
            return self.e(n.operand)
        if isinstance(n.op, ast.Invert):
            return ('inv', self.e(n.operand))
        return ('opaque', ast.dump(n)[:100])

    def e_Compare(self, n):
        left = self.e(n.left)
        parts = []
        for op, c in zip(n.ops, n.comparators):
            right = self.e(c)
            parts.append(('cmp', type(op).__name__, left, right))
            left = right
        return parts[0] if len(parts) == 1 else ('and', tuple(parts))

    def e_BoolOp(self, n):
        return ('and' if isinstance(n.op, ast.And) else 'or', tuple(self.e(v) for v in n.values))

    def e_Subscript(self, n):
        return ('sub', self.e(n.value), self.e(n.slice))

    def e_Slice(self, n):
        return ('slice',) + tuple(self.e(x) if x is not None else NONE for x in (n.lower, n.upper, n.step))

    def e_JoinedStr(self, n):
        return ('fstr', tuple(self.e(v.value) if isinstance(v, ast.FormattedValue) else C(v.value)
                              for v in n.values))

    def e_Starred(self, n):
        return ('star', self.e(n.value))

    def e_NamedExpr(self, n):
        # (name := value): the name is bound from here on, the expression is the value
        val = self.e(n.value)
        if isinstance(n.target, ast.Name):
            self.env[n.target.id] = val
            return val
        return ('opaque', 'walrus')

    def _comp(self, n, elt_fn, wrap):
        if any(g.is_async for g in n.generators):
            return ('opaque', 'async comprehension')
        if len(n.generators) > 1:
            # [e for x in xs for y in ys]  ==  flat([[e for y in ys] for x in xs])
            inner = ast.ListComp(elt=None, generators=n.generators[1:])
            outer_g = n.generators[0]

            def inner_fn(sub):
                fake = _FakeComp(n.generators[1:])
                return sub._comp(fake, elt_fn, lambda t: t)
            fake_outer = _FakeComp([outer_g])
            return wrap(('flat', self._comp(fake_outer, inner_fn, lambda t: t)))
        g = n.generators[0]
        src = self.e(g.iter)
        names = [x.id for x in ast.walk(g.target) if isinstance(x, ast.Name)]
        if isinstance(g.target, ast.Name):
            p = fresh(g.target.id)

            def bind(sub):
                sub.env[g.target.id] = V(p)
        elif isinstance(g.target, ast.Tuple) and all(isinstance(x, ast.Name) for x in g.target.elts):
            p = fresh('t')

            def bind(sub):
                for i, x in enumerate(g.target.elts):
                    sub.env[x.id] = ('sub', V(p), C(i))
        else:
            return ('opaque', 'comprehension target')

        def mk(fn):
            sub = Lower(self.scope, self.locals | set(names), self.env, self.store)
            bind(sub)
            return lam([p], fn(sub))
        for cond in g.ifs:
            src = ('filter', mk(lambda sub, cond=cond: sub.e(cond)), src)
            p2 = p
        return wrap(('map', mk(elt_fn), src))

    def e_ListComp(self, n):
        return self._comp(n, lambda sub: sub.e(n.elt), lambda t: t)

    def e_GeneratorExp(self, n):
        return self._comp(n, lambda sub: sub.e(n.elt), lambda t: t)

    def e_SetComp(self, n):
        return self._comp(n, lambda sub: sub.e(n.elt), lambda t: call(G('set'), [t]))

    def e_DictComp(self, n):
        return self._comp(n, lambda sub: ('tuple', (sub.e(n.key), sub.e(n.value))), lambda t: call(G('dict'), [t]))


def bind_call(program, fn, fi, args, kw, skip):
        """Canonical all-keyword call of a repository function: positional -> parameter names, defaults filled."""
        a = fi.node.args
        pos = [x.arg for x in a.posonlyargs + a.args][skip:]
        if any(x[0] == 'dstar' for x in args):
            return call(fn, args, kw)
        out = {}
        rest = list(args)
        names = list(pos)
        while rest and names and rest[0][0] != 'star':
            out[names.pop(0)] = rest.pop(0)
        if rest:
            if a.vararg is None or (names and rest[0][0] == 'star'):
                if any(x[0] == 'star' for x in rest):
                    return call(fn, args, kw)          # cannot bind a starred argument to named parameters
                return call(fn, args, kw)
            parts = [x[1] if x[0] == 'star' else ('list', (x,)) for x in rest]
            out['*' + a.vararg.arg] = parts[0] if len(parts) == 1 else ('concat', tuple(parts))
        elif a.vararg is not None:
            out['*' + a.vararg.arg] = ('list', ())
        for k, v in kw:
            if k in out:
                return call(fn, args, kw)
            out[k] = v
        # defaults
        dl = Lower(Scope(program, fi.module, fi.cls, fi), set())
        allpos = a.posonlyargs + a.args
        for prm, d in zip(allpos[len(allpos) - len(a.defaults):], a.defaults):
            if prm.arg in pos and prm.arg not in out:
                out[prm.arg] = dl.e(d)
        for prm, d in zip(a.kwonlyargs, a.kw_defaults):
            if d is not None and prm.arg not in out:
                out[prm.arg] = dl.e(d)
        return call(fn, (), tuple(sorted(out.items())))



PROGRAM = None      # set by FuncLower; lets norm() canonicalise calls of repository functions / classes
REF_PARAMS = {}     # qualname -> parameter names of its reference (set by Contracts): a call that passes another parameter
                    # is related to the reference's call through the callee's own body (see _call_with_new_parameter)


def _call_with_new_parameter(fi, selfterm, kwargs):
    """f(.., new=a) where `new` is a parameter f's reference does not have: inline f's (single-expression) body with the actual
    arguments, then fold every occurrence of the body-with-`new`-at-its-default back into the plain call f(..) - so that
    `leafs(as_ids=True)` becomes `map(id, leafs())` when that is what the body says. None when this does not apply."""
    ref = REF_PARAMS.get(fi.qualname)
    if ref is None:
        return None
    a = fi.node.args
    own = [x.arg for x in a.posonlyargs + a.args + a.kwonlyargs]
    new_ = set(own[len(ref):])                      # (the reference's parameters correspond to the first ones by position)
    extras = [k for k, _ in kwargs if k in new_]
    if not extras:
        return None
    allpos = a.posonlyargs + a.args
    dnodes = dict(zip([x.arg for x in allpos[len(allpos) - len(a.defaults):]], a.defaults))
    dnodes.update({x.arg: d for x, d in zip(a.kwonlyargs, a.kw_defaults) if d is not None})
    if any(k not in dnodes or not isinstance(dnodes[k], ast.Constant) for k in extras):
        return None
    try:
        fl = FuncLower(PROGRAM, fi)
        body = _expr_of_block(norm(fl.term()))
    except Exception:
        body = None
    if body is None:
        return None
    env = dict(kwargs)
    if fl.params and fi.cls is not None and selfterm is not None:
        env[fl.params[0]] = selfterm
    if any(p_ not in env for p_ in fl.params if p_ not in dnodes):
        return None
    for p_ in fl.params:
        if p_ not in env and p_ in dnodes and isinstance(dnodes[p_], ast.Constant):
            env[p_] = C(dnodes[p_].value)
    actual = norm(subst(body, env))
    base = norm(subst(body, dict(env, **{k: C(dnodes[k].value) for k in extras})))
    return actual, base


def bind_glob(fn, args, kw):
    """canonical all-keyword form of a call to a repository class / function (or None)"""
    prog = PROGRAM
    if prog is None or fn[0] != 'glob':
        return None
    q = fn[1]
    if q in prog.classes:
        ci = prog.classes[q]
        ctor = prog.lookup_method(ci, '__init__') or prog.lookup_method(ci, '__new__')
        if ctor is None:
            return None
        fi, skip = ctor, 1
    elif q in prog.functions:
        fi, skip = prog.functions[q], 0
    else:
        return None
    if not args:
        a = fi.node.args
        names = {x.arg for x in (a.posonlyargs + a.args)[skip:]} | {x.arg for x in a.kwonlyargs}
        if a.vararg:
            names.add('*' + a.vararg.arg)
        if {k for k, _ in kw} >= {n for n in names if _has_default(fi, n) or n in dict(kw) or n.startswith('*')} and \
                all(k in names for k, _ in kw) and all((n in dict(kw)) for n in names if _has_default(fi, n) or n.startswith('*')):
            return None          # already canonical
    r = bind_call(prog, fn, fi, list(args), list(kw), skip)
    if r == ('call', fn, tuple(args), tuple(kw)):
        return None
    return r


_CTOR_PROJ = {}


def _ctor_projection(q):
    """{field: parameter} for the fields a class's __init__ assigns, on every returning path, directly from a parameter; empty
    when the class (or a base) defines the field as a method / property / class attribute or hooks attribute access"""
    key = (id(PROGRAM), q)
    if key in _CTOR_PROJ:
        return _CTOR_PROJ[key]
    _CTOR_PROJ[key] = {}
    prog = PROGRAM
    ci = prog.classes[q]
    fi = prog.lookup_method(ci, '__init__')
    out = {}
    if fi is not None and not prog.lookup_method(ci, '__new__') and not any(
            prog.lookup_method(ci, h) for h in ('__getattr__', '__getattribute__', '__setattr__')):
        try:
            saved = PROGRAM
            fl = FuncLower(prog, fi)
            term = fl.term()
        except Exception:
            term = None
        if term is not None and fl.params:
            me = V(fl.params[0])
            leaves = [x for x in walk(term) if x[0] == 'ret' and len(x) == 3]
            # (a bare annotation `lower: int` in the class body declares a field, it does not define a class attribute)
            # and a plain class-level value is shadowed by the instance attribute; only descriptors (methods, properties) win)
            taken = {n for c in prog.mro(ci) for n in list(c.methods) + [a_ for a_, v_ in c.class_attrs.items() if isinstance(v_, ast.Call)]}
            if leaves and not any(x[0] in ('loop', 'try') for x in walk(term)):
                cand = None
                for lf in leaves:
                    st = {}
                    for e in lf[2]:
                        if e[0] == 'setattr' and e[1] == me:
                            st[e[2]] = e[3]
                    here = {f: v[1] for f, v in st.items() if v[0] == 'var' and v[1] in fl.params[1:]}
                    cand = here if cand is None else {f: p for f, p in cand.items() if here.get(f) == p}
                out = {f: p for f, p in (cand or {}).items() if f not in taken}
    _CTOR_PROJ[key] = out
    return out


def _has_default(fi, name):
    a = fi.node.args
    allpos = a.posonlyargs + a.args
    withdef = {p.arg for p in allpos[len(allpos) - len(a.defaults):]} | {p.arg for p, d in zip(a.kwonlyargs, a.kw_defaults) if d is not None}
    return name in withdef


_NCC = {}


def _dictlike(t):
    return t[0] == 'dict' or (t[0] == 'if' and _dictlike(t[2]) and _dictlike(t[3]))


_NON_NONE_BUILTINS = ('list', 'tuple', 'sorted', 'len', 'dict', 'set', 'frozenset', 'str', 'int', 'sum', 'bool', 'float', 'abs')


def _never_none(x):
    k = x[0]
    if k in ('list', 'tuple', 'dict', 'set', 'map', 'filter', 'concat', 'lam', 'cmp', 'zip', 'flat', 'sigma'):
        return True
    if k == 'const':
        return x[1] is not None
    if k == 'call' and x[1][0] == 'glob' and x[1][1] in _NON_NONE_BUILTINS:
        return True
    if k == 'if':
        return _never_none(x[2]) and _never_none(x[3])
    return False


def _const_display(x):
    return x[0] == 'const' or (x[0] == 'tuple' and all(_const_display(y) for y in x[1]))


def _literal_term(prog, m, node, depth=0):
    """Term of a constant expression: literals, displays of constant expressions (tuple / list), unary minus, + - * of
    integers, and names of other named constants of the same module. None when the expression is anything else."""
    if depth > 4:
        return None
    if isinstance(node, ast.Constant) and isinstance(node.value, (int, float, str, bool, type(None))):
        return ('const', node.value)
    if isinstance(node, (ast.Tuple, ast.List)):
        xs = [_literal_term(prog, m, e, depth + 1) for e in node.elts]
        return None if any(x is None for x in xs) else ('tuple' if isinstance(node, ast.Tuple) else 'list', tuple(xs))
    if isinstance(node, ast.UnaryOp) and isinstance(node.op, ast.USub):
        x = _literal_term(prog, m, node.operand, depth + 1)
        return ('const', -x[1]) if x is not None and x[0] == 'const' and isinstance(x[1], (int, float)) and not isinstance(x[1], bool) else None
    if isinstance(node, ast.BinOp) and isinstance(node.op, (ast.Add, ast.Sub, ast.Mult)):
        a, b = _literal_term(prog, m, node.left, depth + 1), _literal_term(prog, m, node.right, depth + 1)
        if a is not None and b is not None and a[0] == b[0] == 'const' and all(type(x[1]) is int for x in (a, b)):
            return ('const', {ast.Add: a[1] + b[1], ast.Sub: a[1] - b[1], ast.Mult: a[1] * b[1]}[type(node.op)])
        return None
    if isinstance(node, ast.Name) and m is not None and node.id in m.assigns:
        return named_module_constant(prog, m, node.id, depth + 1)
    d = dotted(node)
    if d and m is not None and isinstance(node, (ast.Attribute, ast.Name)):
        q = prog.qualify(m, d)              # an alias of something outside the package (sys.maxsize, numpy.nan, ...)
        if q and q.split('.')[0] != prog.pkg and d.split('.')[0] in m.imports:
            return ('glob', q)
    return None


def named_module_constant(prog, m, name, depth=0):
    """Term of a module-level `NAME = <constant expression>` bound exactly once at module level and never rebound
    (no `global NAME` anywhere in the module, no attribute store `module.NAME = ...` in the package)."""
    key = (id(prog), m.name, name)
    if key in _NCC:
        return _NCC[key]
    _NCC[key] = None                     # cycle guard
    res = None
    if name in m.assigns and not name.startswith('__'):
        n_bind = 0
        for n in ast.walk(m.tree):
            if isinstance(n, ast.Name) and n.id == name and isinstance(n.ctx, (ast.Store, ast.Del)):
                n_bind += 1
            elif isinstance(n, ast.Global) and name in n.names:
                n_bind += 2
            elif isinstance(n, (ast.FunctionDef, ast.ClassDef, ast.AsyncFunctionDef)) and n.name == name:
                n_bind += 2
            elif isinstance(n, ast.arg) and n.arg == name:
                n_bind += 2             # shadowed by a parameter somewhere: stay symbolic (rare; keeps the rule simple)
        patched = any(isinstance(n, ast.Attribute) and n.attr == name and isinstance(n.ctx, (ast.Store, ast.Del))
                      for mm in prog.modules.values() for n in ast.walk(mm.tree))
        if n_bind == 1 and not patched:
            res = _literal_term(prog, m, m.assigns[name], depth)
    _NCC[key] = res
    return res


def named_class_constant(prog, ci, name):
    """The literal a class-level `NAME = literal` stands for, when NAME is a named constant: bound in exactly one class of
    the package, never stored on an instance or a class anywhere, never named by a getattr/hasattr/attrgetter string, and
    read only through self / cls / the class itself (reads the lowering replaces by the literal). None otherwise."""
    key = (id(prog), 'class', ci.qualname, name)
    if key in _NCC:
        return _NCC[key]
    res = None
    v = _literal_term(prog, ci.module, ci.class_attrs[name]) if name in ci.class_attrs else None
    is_field = any(dotted(d.func if isinstance(d, ast.Call) else d) in ('dataclass', 'dataclasses.dataclass') for d in ci.node.decorator_list)
    ok = v is not None and not is_field and not name.startswith('__') \
        and name not in prog.stored_attr_names() \
        and sum(1 for c in prog.classes.values() if name in c.class_attrs) == 1 \
        and not any(f.name == name for f in prog.functions.values() if f.cls is not None)
    if ok:
        fam = {c.name for c in prog.subclasses(ci)} | {c.qualname for c in prog.subclasses(ci)}
        for m in prog.modules.values():
            for n in ast.walk(m.tree):
                if isinstance(n, ast.Attribute) and n.attr == name:
                    base = dotted(n.value) or ''
                    if not isinstance(n.ctx, ast.Load) or not (base in ('self', 'cls') or base.split('.')[-1] in fam):
                        ok = False
                elif isinstance(n, ast.Constant) and n.value == name:
                    ok = False              # the name appears as a string: getattr / hasattr / attrgetter / setattr may reach it
        if ok:
            res = v
    _NCC[key] = res
    return res


def _const_term(v):
    if isinstance(v, tuple):
        return ('tuple', tuple(_const_term(x) for x in v))
    return ('const', v)


CONTRACTED = set()      # qualnames covered by a reference (set by the contract engine); those are never inlined
# shared helpers that are inlined on both sides although they have a contract of their own (so that "call the helper" and
# "repeat its body" compare equal); their own contract is an obligation of every property that uses them
INLINE_ALWAYS = {"puan.logic.plog.AtLeast._to_pyrs_theory"}


def _expr_of_block(t):
    """value of an effect-free function body term as an expression term (or None)"""
    if t[0] == 'ret' and not t[2]:
        return t[1]
    if t[0] == 'if':
        a, b = _expr_of_block(t[2]), _expr_of_block(t[3])
        if a is not None and b is not None:
            return ('if', t[1], a, b)
    return None


class _FakeComp:
    def __init__(self, generators):
        self.generators = generators


def _is_doc(s):
    return isinstance(s, ast.Expr) and isinstance(s.value, ast.Constant) and isinstance(s.value.value, str)


# ------------------------------------------------------------------------------------------------
# statement lowering: a function body becomes one nested term
#   ('if', c, T, E) | ('ret', value, effects) | ('raise', exc, effects) | ('try', T, handlers)
# ------------------------------------------------------------------------------------------------
MUTATORS = {'append', 'extend', 'insert', 'pop', 'remove', 'clear', 'sort', 'reverse', 'update', 'setdefault',
            'add', 'discard', 'fill', 'put', 'itemset', 'resize', 'popitem', 'difference_update',
            'intersection_update', 'symmetric_difference_update'}


class _Leave:
    """pseudo statement: leaving a try body"""
    def __init__(self, tag, assigned=()):
        self.tag = tag
        self.assigned = tuple(assigned)


def _may_raise(t):
    """evaluating the term does something beyond reading names / attributes / building displays (a lambda is a leaf)"""
    if not is_node(t):
        return False
    if t[0] in ('var', 'const', 'glob', 'bv', 'lam', 'pretry', 'intry'):
        return False
    if t[0] in ('attr', 'tuple', 'list', 'dict', 'kw', 'set'):
        return any(_may_raise(c) for c in children(t))
    return True


_TOTAL_FUNCS = {'len', 'str', 'repr', 'type', 'bool', 'id', 'isinstance', 'issubclass', 'hasattr', 'callable', 'set', 'frozenset',
                'list', 'tuple', 'any', 'all', 'enumerate', 'iter', 'itertools.chain', 'itertools.chain.from_iterable', 'format',
                'logging.getLogger', 'dict.fromkeys', 'collections.OrderedDict.fromkeys', 'more_itertools.unique_everseen'}
_TOTAL_METHODS = {'difference', 'union', 'intersection', 'symmetric_difference', 'keys', 'values', 'items', 'copy', 'issubset',
                  'issuperset', 'isdisjoint', 'as_tuple', '__contains__', 'isEnabledFor', 'getEffectiveLevel'}


def _total(t):
    """evaluating the term cannot raise and changes nothing, given that its free names hold values of the kinds the code around
    treats them as (iterables are iterable, set / dict members are hashable, attributes read elsewhere exist). NOT total:
    subscripts, arithmetic, ordering (`sorted` without key=str / repr, min, max), str.join, int(), next(), unknown calls."""
    if not is_node(t):
        return isinstance(t, (str, int, float, bool, type(None))) or (isinstance(t, tuple) and all(_total(x) for x in t))
    k = t[0]
    if k in ('var', 'const', 'glob', 'bv', 'lam', 'phi', 'loopout'):
        return True
    if k in ('attr',):
        return _total(t[1])
    if k in ('tuple', 'list', 'set', 'and', 'or', 'concat'):
        return all(_total(x) for x in t[1])
    if k == 'dict':
        return all(x[0] == 'kw' and _total(x[1]) and _total(x[2]) for x in t[1])
    if k == 'fstr':
        return all(_total(x) for x in t[1])
    if k == 'not':
        return _total(t[1])
    if k == 'cmp':
        return t[1] in ('Eq', 'NotEq', 'Is', 'IsNot', 'In', 'NotIn') and _total(t[2]) and _total(t[3])
    if k == 'if':
        return _total(t[1]) and _total(t[2]) and _total(t[3])
    if k in ('map', 'filter'):
        return t[1][0] == 'lam' and _total(t[1][2]) and _total(t[2])
    if k in ('flat',):
        return _total(t[1])
    if k == 'zip':
        return all(_total(x) for x in t[1])
    if k in ('ge0', 'eq0', 'ne0'):
        return _total(t[1])
    if k == 'poly':
        # integer arithmetic over lengths and constants
        return all(f_[0] == 'const' or (f_[0] == 'call' and f_[1] == G('len') and _total(f_)) for _, mono in t[1] for f_ in mono)
    if k == 'call':
        fn, args, kw = t[1], t[2], t[3]
        if fn[0] == 'glob':
            if fn[1] in _TOTAL_FUNCS and not kw:
                return all(_total(a) for a in args)
            if fn[1] == 'getattr' and len(args) == 3:
                return all(_total(a) for a in args)
            if fn[1].split('.')[-1] in ('isEnabledFor', 'getEffectiveLevel'):
                return all(_total(a) for a in args)
            if fn[1] == 'sorted' and len(args) == 1 and len(kw) == 1 and kw[0][0] == 'key' and kw[0][1] in (G('str'), G('repr')):
                return _total(args[0])
            return False
        if fn[0] == 'attr' and fn[2] in _TOTAL_METHODS and not kw:
            return _total(fn[1]) and all(_total(a) for a in args)
        if fn[0] == 'attr' and fn[2] == 'get' and len(args) == 2 and not kw:
            return _total(fn[1]) and all(_total(a) for a in args)
        return False
    return False


def _contains_aeq(t, y):
    if contains(t, lambda x: x == y):
        return True
    dy = debruijn(y)
    return any(x[0] == y[0] and len(x) == len(y) and debruijn(x) == dy for x in walk(t))


def _partial_cores(c):
    """the outermost subterms of c whose evaluation is not total"""
    if _total(c):
        return []
    if is_node(c) and c[0] in ('cmp', 'not', 'and', 'or', 'tuple', 'list', 'attr', 'ge0', 'eq0', 'ne0') or \
            (is_node(c) and c[0] == 'call' and c[1][0] == 'glob' and c[1][1] in _TOTAL_FUNCS):
        out = []
        for x in children(c):
            out += _partial_cores(x)
        if out:
            return out
    return [c]


def _prepend_effect(t, e):
    """the statement-level term t with effect e happening first on every path"""
    if t[0] in ('ret', 'raise', 'break', 'continue') and len(t) == 3:
        return (t[0], t[1], (e,) + tuple(t[2]))
    if t[0] == 'if':
        return ('if', t[1], _prepend_effect(t[2], e), _prepend_effect(t[3], e))
    if t[0] == 'try':
        return ('try', _prepend_effect(t[1], e), t[2])
    return None


class FuncLower:
    def __init__(self, program, fi, param_names=None):
        global PROGRAM
        PROGRAM = program
        self.program = program
        self.fi = fi
        self.scope = Scope(program, fi.module, fi.cls, fi)
        a = fi.node.args
        self.params = [x.arg for x in a.posonlyargs + a.args] + ([a.vararg.arg] if a.vararg else []) + \
                      [x.arg for x in a.kwonlyargs] + ([a.kwarg.arg] if a.kwarg else [])
        local = set(self.params)
        for n in ast.walk(fi.node):
            if isinstance(n, ast.Name) and isinstance(n.ctx, (ast.Store, ast.Del)):
                local.add(n.id)
            elif isinstance(n, (ast.FunctionDef, ast.AsyncFunctionDef)) and n is not fi.node:
                local.add(n.name)
        self.locals = local
        self.nloops = 0
        # guards of diagnostics: `if len(x) > 1: log(x[0])` - the subscript is safe under the test
        def mark(stmts, guards):
            for b in stmts:
                if isinstance(b, ast.If):
                    mark(b.body, guards + [b.test])
                    mark(b.orelse, guards)
                elif isinstance(b, ast.Expr) and isinstance(b.value, ast.Call):
                    b.value._guards = list(guards)
                elif isinstance(b, (ast.For, ast.While, ast.With, ast.Try)):
                    for fld in ('body', 'orelse', 'finalbody'):
                        mark(getattr(b, fld, []) or [], guards)
                    for h in getattr(b, 'handlers', []) or []:
                        mark(h.body, guards)
        mark(fi.node.body, [])
        # optional positional renaming of parameters (used to align a reference with the code)
        self.param_names = param_names

    def term(self):
        lw = Lower(self.scope, self.locals)
        if self.param_names:
            for mine, theirs in zip(self.params, self.param_names):
                lw.env[mine] = V(theirs)
        body = [s for s in self.fi.node.body if not _is_doc(s)]
        return self.block(body, lw, ())

    def defaults(self):
        """parameter default terms: list of (name, term)"""
        a = self.fi.node.args
        pos = a.posonlyargs + a.args
        out = []
        lw = Lower(self.scope, set())
        for p, d in zip(pos[len(pos) - len(a.defaults):], a.defaults):
            out.append((p.arg, norm(lw.e(d))))
        for p, d in zip(a.kwonlyargs, a.kw_defaults):
            if d is not None:
                out.append((p.arg, norm(lw.e(d))))
        return out

    # effects: tuple of terms
    def block(self, stmts, lw, eff):
        stmts = list(stmts)
        for i, st in enumerate(stmts):
            rest = stmts[i + 1:]
            if isinstance(st, _Leave):
                # what the try body computed was evaluated inside it, wherever the name is used later
                for nm in st.assigned:
                    if nm in lw.env and _may_raise(lw.env[nm]):
                        lw.env[nm] = ('intry', lw.env[nm])
                return ('after_try', self.block(rest, lw, eff))
            if _is_doc(st) or isinstance(st, ast.Pass):
                continue
            if isinstance(st, (ast.Import, ast.ImportFrom)):
                continue
            if isinstance(st, ast.Assign):
                if isinstance(st.value, ast.Call) and len(st.targets) == 1:
                    k = self._cps_inline(st.value, st.targets[0], rest, lw, eff)
                    if k is not None:
                        return k
                if len(st.targets) == 1 and isinstance(st.targets[0], ast.Name) and st.targets[0].id in self.diag_locals():
                    # a local that only feeds diagnostics disappears with them - unless computing it can raise or uses up
                    # a one-shot iterator: then the evaluation stays part of the function
                    try:
                        lw2 = lw.clone()
                        lw2.store = {}
                        for nm in list(lw2.env):
                            if (nm in self.locals or nm in self.params) and lw2.env[nm][0] != 'lam':
                                lw2.env[nm] = V(nm)
                        rhs = norm(lw2.e(st.value))
                    except Exception:
                        rhs = None
                    fake = ast.Call(func=ast.Name(id='print', ctx=ast.Load()), args=[st.value], keywords=[])
                    if rhs is None or not _total(rhs) or self._consumes_lazy(fake, lw):
                        eff = eff + (('expr', rhs if rhs is not None else lw.e(st.value)),)
                val = lw.e(st.value)
                for tg in st.targets:
                    eff = self.assign(tg, val, lw, eff)
                continue
            if isinstance(st, ast.AnnAssign):
                if st.value is not None:
                    if isinstance(st.value, ast.Call):
                        k = self._cps_inline(st.value, st.target, rest, lw, eff)
                        if k is not None:
                            return k
                    eff = self.assign(st.target, lw.e(st.value), lw, eff)
                continue
            if isinstance(st, ast.AugAssign):
                cur = lw.e(_as_load(st.target))
                val = ('binop', type(st.op).__name__, cur, lw.e(st.value))
                eff = self.assign(st.target, val, lw, eff)
                continue
            if isinstance(st, ast.Return):
                if isinstance(st.value, ast.Call):
                    tail = self._tail_inline(st.value, lw, eff)
                    if tail is not None:
                        return tail
                v = lw.e(st.value) if st.value is not None else NONE
                return ('ret', self.finish(v, lw), eff)
            if isinstance(st, ast.Raise):
                v = lw.e(st.exc) if st.exc is not None else C('reraise')
                return ('raise', v, eff)
            if isinstance(st, ast.If):
                c = lw.e(st.test)
                l1, l2 = lw.clone(), lw.clone()
                return ('if', c, self.block(list(st.body) + rest, l1, eff), self.block(list(st.orelse) + rest, l2, eff))
            if isinstance(st, ast.Expr):
                if isinstance(st.value, ast.Call):
                    k = self._cps_inline(st.value, None, rest, lw, eff)
                    if k is not None:
                        return k
                eff = self.expr_stmt(st.value, lw, eff)
                continue
            if isinstance(st, ast.Delete):
                for tg in st.targets:
                    if isinstance(tg, ast.Subscript) and isinstance(tg.value, ast.Name) and tg.value.id in lw.env:
                        lw.env[tg.value.id] = ('delitem', lw.env[tg.value.id], lw.e(tg.slice))
                    elif isinstance(tg, ast.Subscript):
                        eff = eff + (('delitem', lw.e(tg.value), lw.e(tg.slice)),)
                    elif isinstance(tg, ast.Name):
                        lw.env.pop(tg.id, None)
                    else:
                        eff = eff + (('opaque', 'del ' + ast.dump(tg)[:80]),)
                continue
            if isinstance(st, ast.With):
                items = tuple(lw.e(it.context_expr) for it in st.items)
                for it in st.items:
                    if it.optional_vars is not None:
                        eff = self.assign(it.optional_vars, call(G('__enter__'), [lw.e(it.context_expr)]), lw, eff)
                eff = eff + (('expr', call(G('__with__'), items)),)
                return self.block(list(st.body) + rest, lw, eff)
            if isinstance(st, ast.Try) and st.orelse and not st.finalbody and all(
                    isinstance(b, ast.Assign) and len(b.targets) == 1 and isinstance(b.targets[0], ast.Name)
                    and isinstance(b.value, (ast.Constant, ast.Name)) for b in st.orelse):
                # `else:` of plain constant / name bindings cannot raise: it is the tail of the try body
                st = ast.Try(body=list(st.body) + list(st.orelse), handlers=st.handlers, orelse=[], finalbody=[])
            if isinstance(st, ast.Try) and self._simple_try(st):
                # try: <expression statements / simple assignments>  except: <simple assignments>   -> value-level try terms
                body_lw = lw.clone()
                seq = []
                for b in st.body:
                    if isinstance(b, ast.Expr):
                        seq.append(body_lw.e(b.value))
                    elif isinstance(b, ast.Assign):
                        body_lw.env[b.targets[0].id] = body_lw.e(b.value)
                names = []
                for b in list(st.body) + [x for h in st.handlers for x in h.body]:
                    if isinstance(b, ast.Assign) and b.targets[0].id not in names:
                        names.append(b.targets[0].id)
                hvals = []
                for h in st.handlers:
                    hl = lw.clone()
                    for b in h.body:
                        if isinstance(b, ast.Assign):
                            hl.env[b.targets[0].id] = hl.e(b.value)
                    hvals.append((lw.e(h.type) if h.type is not None else C('bare'), hl))
                for n in names:
                    bv = body_lw.env.get(n, lw.env.get(n, C('<unbound>')))
                    val = ('seq', tuple(seq), bv) if seq else bv
                    lw.env[n] = ('try', val, tuple(('handler', ht, hl.env.get(n, lw.env.get(n, C('<unbound>')))) for ht, hl in hvals))
                continue
            if isinstance(st, ast.Try):
                # `try: x = E  except: raise ...` followed only by `return x` (and observational statements): returning a local
                # cannot raise and no handler falls through, so the return belongs to the try body (`try: return E`)
                if not st.orelse and not st.finalbody and st.handlers and \
                        all(h.body and isinstance(h.body[-1], (ast.Raise, ast.Return)) for h in st.handlers):
                    live = [r for r in rest if not (_is_doc(r) or isinstance(r, ast.Pass) or
                                                    (isinstance(r, ast.Expr) and isinstance(r.value, ast.Call) and _observational(r.value)))]
                    top = {t.id for b in st.body if isinstance(b, (ast.Assign, ast.AnnAssign))
                           for t in (b.targets if isinstance(b, ast.Assign) else [b.target]) if isinstance(t, ast.Name)}
                    if len(live) == 1 and isinstance(live[0], ast.Return) and isinstance(live[0].value, ast.Name) \
                            and live[0].value.id in top:
                        st = ast.Try(body=list(st.body) + [live[0]], handlers=st.handlers, orelse=[], finalbody=[])
                        rest = []
                handlers = []
                for h in st.handlers:
                    hl = lw.clone()
                    if h.name:
                        hl.locals.add(h.name)
                        hl.env[h.name] = V('exc')
                    htype = lw.e(h.type) if h.type is not None else C('bare')
                    handlers.append(('handler', htype, self.block(list(h.body) + [_Leave('h')] + rest, hl, eff)))
                assigned = sorted({n.id for b in list(st.body) + list(st.orelse) for n in ast.walk(b)
                                   if isinstance(n, ast.Name) and isinstance(n.ctx, ast.Store)})
                bl = lw.clone()
                for nm, tm in list(bl.env.items()):     # computed before the try: not covered by its handlers
                    if _may_raise(tm):
                        bl.env[nm] = ('pretry', tm)
                body = self.block(list(st.body) + list(st.orelse) + [_Leave('t', assigned)] + list(st.finalbody) + rest, bl, eff)
                return ('try', body, tuple(handlers))
            if isinstance(st, ast.Match):
                subj = lw.e(st.subject)

                def pat(p_):
                    if isinstance(p_, ast.MatchValue):
                        return ('cmp', 'Eq', subj, lw.e(p_.value))
                    if isinstance(p_, ast.MatchSingleton):
                        return ('cmp', 'Is', subj, C(p_.value))
                    if isinstance(p_, ast.MatchOr):
                        ps = [pat(x) for x in p_.patterns]
                        return None if any(x is None for x in ps) else ('or', tuple(ps))
                    if isinstance(p_, ast.MatchAs) and p_.pattern is None and p_.name is None:
                        return C(True)
                    return None
                conds = [pat(c.pattern) for c in st.cases]
                if all(c is not None for c in conds):
                    def chain(i):
                        if i == len(st.cases):
                            return self.block(rest, lw.clone(), eff)
                        c = conds[i]
                        if st.cases[i].guard is not None:
                            c = ('and', (c, lw.e(st.cases[i].guard)))
                        return ('if', c, self.block(list(st.cases[i].body) + rest, lw.clone(), eff), chain(i + 1))
                    return chain(0)
            if isinstance(st, (ast.For, ast.While)):
                return self.loop(st, rest, lw, eff)
            if isinstance(st, ast.Break):
                if self._break_ret is not None:
                    # the loop is followed by nothing but `return E`: leaving it here is returning E with the current values
                    v = lw.e(self._break_ret.value) if self._break_ret.value is not None else NONE
                    return ('ret', self.finish(v, lw), eff)
                return ('break', self.snapshot(lw), eff)
            if isinstance(st, ast.Continue):
                return ('continue', self.snapshot(lw), eff)
            if isinstance(st, (ast.FunctionDef,)):
                body = [s for s in st.body if not _is_doc(s)]
                if len(body) == 1 and isinstance(body[0], ast.Return) and body[0].value is not None:
                    lw.env[st.name] = lw._lambda(st.args, lambda sub: sub.e(body[0].value))
                elif st.decorator_list or any(isinstance(n, (ast.Yield, ast.YieldFrom, ast.Nonlocal, ast.Global)) for n in ast.walk(st)):
                    lw.env[st.name] = ('opaque', 'nested def ' + st.name)
                else:
                    # general nested function: a lambda whose body is the lowered block (with its effects)
                    def mk(sub, body=body):
                        saved = (self._in_loop_body, self._loop_names)
                        self._in_loop_body, self._loop_names = False, ()
                        for n in ast.walk(st):
                            if isinstance(n, ast.Name) and isinstance(n.ctx, ast.Store):
                                sub.locals.add(n.id)
                        r = self.block(body, sub, ())
                        self._in_loop_body, self._loop_names = saved
                        return r
                    lw.env[st.name] = lw._lambda(st.args, mk)
                continue
            if isinstance(st, ast.Assert):
                c = lw.e(st.test)
                return ('if', c, self.block(rest, lw, eff), ('raise', call(G('AssertionError')), eff))
            if isinstance(st, (ast.Global, ast.Nonlocal)):
                eff = eff + (('opaque', type(st).__name__ + ' ' + ','.join(st.names)),)
                continue
            eff = eff + (('opaque', 'stmt ' + type(st).__name__),)
        # fell off the end
        if self._in_loop_body:
            return ('continue', self.snapshot(lw), eff)
        return ('ret', NONE, eff)

    @staticmethod
    def _simple_try(st):
        if st.orelse or st.finalbody or not st.handlers:
            return False
        def simple_assign(b):
            return isinstance(b, ast.Assign) and len(b.targets) == 1 and isinstance(b.targets[0], ast.Name)
        if not all(isinstance(b, ast.Expr) and not isinstance(b.value, (ast.Yield, ast.YieldFrom)) or simple_assign(b) for b in st.body):
            return False
        if not any(simple_assign(b) for b in st.body) and not any(simple_assign(b) for h in st.handlers for b in h.body):
            return False
        return all(all(simple_assign(b) or isinstance(b, ast.Pass) for b in h.body) and h.name is None for h in st.handlers)

    def _cps_inline(self, n, target, rest, lw, eff):
        """`x = helper(...)` / `helper(...)` as a statement of its own, where helper is an unspecified repository helper whose
        body has several paths (guards that raise): each of its returns continues with the rest of the block (an extracted
        helper is transparent). Exact because the call is the whole statement: nothing of the caller is evaluated between
        the helper's guards and its return."""
        if self._in_loop_body:
            return None
        try:
            args, kw = lw._args(n)
            fn = lw.e(n.func)
        except Exception:
            return None
        t = lw._inline_block(n, fn, args, kw)
        if t is None or _expr_of_block(t) is not None:
            return None                 # not a helper, or a plain expression helper (inlined by the expression lowering)

        def shape_ok(x):
            return x[0] in ('ret', 'raise') or (x[0] == 'if' and shape_ok(x[2]) and shape_ok(x[3]))
        if not shape_ok(t):
            return None

        def go(x):
            if x[0] == 'if':
                return ('if', x[1], go(x[2]), go(x[3]))
            if x[0] == 'raise':
                return ('raise', x[1], tuple(eff) + tuple(x[2]))
            l = lw.clone()
            e2 = tuple(eff) + tuple(x[2])
            if target is not None:
                e2 = self.assign(target, x[1], l, e2)
            return self.block(rest, l, e2)
        return go(t)

    def _tail_inline(self, n, lw, eff):
        """`return helper(...)` of an unspecified repository helper whose body has several paths / raises: its block term
        becomes the continuation (an extracted helper is transparent)."""
        try:
            args, kw = lw._args(n)
            fn = lw.e(n.func)
        except Exception:
            return None
        saved = lw.scope.inline_depth
        t = lw._inline_block(n, fn, args, kw)
        if t is None:
            return None

        def add_eff(x):
            if x[0] in ('ret', 'raise') and len(x) == 3:
                return (x[0], x[1], tuple(eff) + tuple(x[2]))
            return None
        return replace(t, add_eff) if eff else t

    _in_loop_body = False
    _loop_names = ()
    _break_ret = None

    _loop_pos = {}

    def snapshot(self, lw):
        return ('blk', tuple(('kw', C(self._loop_pos.get(n, n)), lw.env.get(n, V(n) if n in self.params else C('<unbound>'))) for n in self._loop_names))

    def finish(self, v, lw):
        return v

    def assign(self, tg, val, lw, eff):
        if isinstance(tg, ast.Name):
            lw.env[tg.id] = val
            return eff
        if isinstance(tg, (ast.Tuple, ast.List)):
            if val[0] in ('tuple', 'list') and len(val[1]) == len(tg.elts) and not any(x[0] == 'star' for x in val[1]):
                for t, v in zip(tg.elts, val[1]):
                    eff = self.assign(t, v, lw, eff)
            else:
                for i, t in enumerate(tg.elts):
                    eff = self.assign(t, ('sub', val, C(i)), lw, eff)
            return eff
        if isinstance(tg, ast.Attribute):
            if isinstance(tg.value, ast.Name) and tg.value.id in lw.env and tg.value.id not in self.params:
                # store on a local object: functional update of the binding
                name = tg.value.id
                lw.env[name] = ('upd', lw.env[name], tg.attr, val)
                return eff
            obj = lw.e(tg.value)
            lw.store[(obj, tg.attr)] = val
            return eff + (('setattr', obj, tg.attr, val),)
        if isinstance(tg, ast.Subscript):
            if isinstance(tg.value, ast.Name) and tg.value.id in lw.env and tg.value.id not in self.params:
                name = tg.value.id
                lw.env[name] = ('setitem', lw.env[name], lw.e(tg.slice), val)
                return eff
            return eff + (('setitem', lw.e(tg.value), lw.e(tg.slice), val),)
        return eff + (('opaque', 'assign target ' + type(tg).__name__),)

    def expr_stmt(self, v, lw, eff):
        if isinstance(v, ast.Call) and isinstance(v.func, ast.Attribute) and isinstance(v.func.value, ast.Name) \
                and v.func.attr in MUTATORS and v.func.value.id in lw.env and v.func.value.id not in self.params:
            name = v.func.value.id
            args, kw = lw._args(v)
            old = lw.env[name]
            if v.func.attr == 'append' and len(args) == 1 and not kw:
                lw.env[name] = ('concat', (old, ('list', (args[0],))))
            elif v.func.attr == 'extend' and len(args) == 1 and not kw:
                lw.env[name] = ('concat', (old, args[0]))
            else:
                lw.env[name] = ('upd', old, '.' + v.func.attr, call(G('args'), args, kw))
            return eff
        if isinstance(v, (ast.Yield, ast.YieldFrom)):
            return eff + (('yield', lw.e(v.value) if v.value is not None else NONE),)
        if isinstance(v, ast.Call) and _observational(v):
            # logging / warnings / print: observable only on a side channel - provided that computing what is logged cannot
            # raise and does not use up a one-shot iterator; otherwise the evaluation stays part of the function
            try:
                lw2 = lw.clone()
                lw2.store = {}                      # an attribute that was stored before is read, not recomputed
                for nm in list(lw2.env):
                    if (nm in self.locals or nm in self.params) and lw2.env[nm][0] != 'lam':
                        lw2.env[nm] = V(nm)         # a name that is already bound: reading it evaluates nothing
                args, kw = lw2._args(_safe_subscripts(v))
                parts = [norm(a) for a in args] + [norm(x) for _, x in kw]
            except Exception:
                parts = None
            if parts is not None and all(_total(x) for x in parts) and not self._consumes_lazy(v, lw):
                return eff
            return eff + tuple(('expr', x) for x in (parts or [lw.e(v)]) if not _total(x)) + \
                ((('expr', call(G('__consume__'), [C(ast.unparse(v)[:80])])),) if self._consumes_lazy(v, lw) else ())
        return eff + (('expr', lw.e(v)),)

    def diag_locals(self):
        """locals every read of which is inside a logging / warning / print statement, or is the test of an `if` that guards
        nothing but such statements"""
        if getattr(self, '_diag_locals', None) is not None:
            return self._diag_locals
        def diag_stmt(st):
            return isinstance(st, ast.Pass) or (isinstance(st, ast.Expr) and isinstance(st.value, ast.Call) and _observational(st.value))
        inside = set()      # ids of Name nodes read in a diagnostic position
        for n in ast.walk(self.fi.node):
            if isinstance(n, ast.Expr) and isinstance(n.value, ast.Call) and _observational(n.value):
                inside |= {id(x) for x in ast.walk(n) if isinstance(x, ast.Name)}
            elif isinstance(n, ast.If) and n.body and all(diag_stmt(b) for b in n.body + n.orelse):
                inside |= {id(x) for x in ast.walk(n.test) if isinstance(x, ast.Name)}
        reads, diag_reads, stores = {}, {}, {}
        for x in ast.walk(self.fi.node):
            if isinstance(x, ast.Name):
                if isinstance(x.ctx, ast.Load):
                    reads[x.id] = reads.get(x.id, 0) + 1
                    if id(x) in inside:
                        diag_reads[x.id] = diag_reads.get(x.id, 0) + 1
                else:
                    stores[x.id] = stores.get(x.id, 0) + 1
        self._diag_locals = {nm for nm, k in diag_reads.items() if k == reads.get(nm) and stores.get(nm) == 1
                             and nm in self.locals and nm not in self.params}
        return self._diag_locals

    def _consumes_lazy(self, callnode, lw):
        """a diagnostic that iterates a parameter (other than *args / self) or a local bound to a lazy iterator uses it up"""
        a = self.fi.node.args
        params = {x.arg for x in a.posonlyargs + a.args + a.kwonlyargs}
        if a.posonlyargs + a.args and self.fi.cls is not None:
            params.discard((a.posonlyargs + a.args)[0].arg)
        lazy = set()
        for n in ast.walk(self.fi.node):
            if isinstance(n, ast.Assign) and len(n.targets) == 1 and isinstance(n.targets[0], ast.Name):
                val = n.value
                if isinstance(val, ast.GeneratorExp) or (isinstance(val, ast.Call) and (dotted(val.func) or '').split('.')[-1] in (
                        'map', 'filter', 'zip', 'iter', 'starmap', 'chain', 'from_iterable', 'compress', 'groupby', 'islice',
                        'takewhile', 'dropwhile', 'filterfalse', 'accumulate', 'pairwise', 'reversed', 'enumerate')):
                    lazy.add(n.targets[0].id)
        # a parameter the function subscripts, asks for membership / length or calls methods on is a container, not a one-shot
        # iterator
        for n in ast.walk(self.fi.node):
            if isinstance(n, (ast.Subscript, ast.Attribute)) and isinstance(n.value, ast.Name):
                params.discard(n.value.id)
            elif isinstance(n, ast.Compare) and any(isinstance(o, (ast.In, ast.NotIn)) for o in n.ops):
                for c_ in n.comparators:
                    if isinstance(c_, ast.Name):
                        params.discard(c_.id)
        names = params | lazy
        consumers = {'list', 'tuple', 'set', 'frozenset', 'sorted', 'sum', 'any', 'all', 'max', 'min', 'dict', 'join', 'len', 'next',
                     'map', 'filter', 'zip', 'enumerate', 'chain', 'from_iterable', 'Counter', 'reversed'}
        for arg in list(callnode.args) + [k.value for k in callnode.keywords]:
            for n in ast.walk(arg):
                if isinstance(n, ast.Call) and (dotted(n.func) or '').split('.')[-1] in consumers:
                    for x in n.args:
                        x = x.value if isinstance(x, ast.Starred) else x
                        if isinstance(x, ast.Name) and x.id in names:
                            return True
                elif isinstance(n, ast.comprehension) and isinstance(n.iter, ast.Name) and n.iter.id in names:
                    return True
                elif isinstance(n, ast.Starred) and isinstance(n.value, ast.Name) and n.value.id in names:
                    return True
        return False

    def loop(self, st, rest, lw, eff):
        idx = self.nloops
        self.nloops += 1
        assigned = []
        for n in ast.walk(st):
            if isinstance(n, ast.Name) and isinstance(n.ctx, ast.Store) and n.id not in assigned:
                assigned.append(n.id)
            elif isinstance(n, (ast.Attribute, ast.Subscript)) and isinstance(n.ctx, ast.Store):
                b = n
                while isinstance(b, (ast.Attribute, ast.Subscript)):
                    b = b.value
                if isinstance(b, ast.Name) and b.id not in assigned:
                    assigned.append(b.id)
            elif isinstance(n, ast.Call) and isinstance(n.func, ast.Attribute) and n.func.attr in MUTATORS \
                    and isinstance(n.func.value, ast.Name) and n.func.value.id not in assigned:
                assigned.append(n.func.value.id)
        assigned = [a for a in assigned if a in self.locals]
        # loop-carried variables are named positionally (insensitive to renaming of locals)
        pos = {n: f"v{k}" for k, n in enumerate(assigned)}
        self._loop_pos = pos
        init = tuple(('kw', C(pos[n]), lw.env.get(n, V(n) if n in self.params else C('<unbound>'))) for n in assigned)
        bl = lw.clone()
        for n in assigned:
            bl.env[n] = ('phi', idx, pos[n])
        if isinstance(st, ast.For):
            head = ('for', bl.e(st.iter))
            bl2 = bl
            self.assign(st.target, ('phi', idx, '$item'), bl2, ())
        else:
            head = ('while', bl.e(st.test))
        saved = (self._in_loop_body, self._loop_names, self._break_ret)
        self._in_loop_body, self._loop_names = True, tuple(assigned)
        live = [r for r in rest if isinstance(r, ast.AST) and not (_is_doc(r) or isinstance(r, ast.Pass) or
                (isinstance(r, ast.Expr) and isinstance(r.value, ast.Call) and _observational(r.value)))]
        self._break_ret = live[0] if (len(live) == 1 and len(live) == len([r for r in rest if isinstance(r, ast.AST)]) - 0 * 1
                                      and isinstance(live[0], ast.Return) and not st.orelse and not saved[0]) else None
        body = self.block(list(st.body), bl, ())
        self._in_loop_body, self._loop_names, self._break_ret = saved
        if isinstance(st, ast.For) and not st.orelse:
            summ = self._summarise_for(idx, assigned, pos, lw, head[1], body, rest)
            if summ is None:
                summ = self._summarise_extreme_by_key(idx, assigned, pos, lw, head[1], body, rest)
            if summ is not None:
                for n, term in summ.items():
                    lw.env[n] = term
                return self.block(rest, lw, eff)
        loopterm = ('loop', C(idx), C(head[0]), head[1], ('blk', init), body)
        for n in assigned:
            lw.env[n] = ('loopout', idx, pos[n])
        return self.block(rest, lw, eff + (loopterm,))

    def _summarise_for(self, idx, assigned, pos, lw, iter_term, body, rest):
        """Recognise accumulator loops:  acc.append(e) / acc = acc + e / acc.extend(e) / total += e, possibly under conditions on
        the item, and turn them into map / filter / flat / sum terms. Returns {name: term after the loop} or None."""
        item = ('phi', idx, '$item')

        def mentions_phi(t, allow=()):
            return any(x[0] == 'phi' and x[1] == idx and x != item and x not in allow for x in walk(t))

        # all leaves must be plain `continue` without effects; conditions may only depend on the item / loop-invariant values
        leaves = []

        def collect(t, conds):
            if t[0] == 'if':
                if mentions_phi(t[1]):
                    return False
                return collect(t[2], conds + [(t[1], True)]) and collect(t[3], conds + [(t[1], False)])
            if t[0] == 'continue' and not t[2]:
                leaves.append((conds, t[1]))
                return True
            return False
        if not collect(body, []):
            return self._summarise_extreme_by_key(idx, assigned, pos, lw, iter_term, body, rest)
        rest_names = set()
        for stn in rest:
            if isinstance(stn, ast.AST):
                rest_names |= {n.id for n in ast.walk(stn) if isinstance(n, ast.Name)}
        out = {}
        for name in assigned:
            phi = ('phi', idx, pos[name])
            kind = None
            for conds, blk in leaves:
                val = dict((kw[1][1], kw[2]) for kw in blk[1]).get(pos[name])
                if val is None:
                    return None
                if val == phi:
                    continue
                if val[0] == 'concat' and val[1] and val[1][0] == phi and not any(mentions_phi(x) for x in val[1][1:]):
                    k2 = 'concat'
                elif val[0] == 'binop' and val[1] == 'Add' and val[2] == phi and not mentions_phi(val[3]):
                    k2 = 'add'
                elif val[0] == 'binop' and val[1] == 'Add' and val[3] == phi and not mentions_phi(val[2]):
                    k2 = 'add'
                elif not mentions_phi(val):
                    k2 = 'temp'          # re-assigned from scratch in the iteration: a temporary
                else:
                    return None
                if kind is not None and kind != k2:
                    return None
                kind = k2
            if kind is None:
                continue                  # never changed
            if kind == 'temp':
                if name in rest_names:
                    return None           # value of the last iteration is used after the loop: not summarised
                continue
            p = fresh('it')

            def contrib(t):
                if t[0] == 'if':
                    return ('if', t[1], contrib(t[2]), contrib(t[3]))
                val = dict((kw[1][1], kw[2]) for kw in t[1][1]).get(pos[name])
                if val == phi:
                    return ('list', ()) if kind == 'concat' else C(0)
                if kind == 'concat':
                    parts = val[1][1:]
                    return parts[0] if len(parts) == 1 else ('concat', tuple(parts))
                return val[3] if val[2] == phi else val[2]
            c = replace(contrib(body), lambda x: V(p) if x == item else None)
            if mentions_phi(c):
                return None
            init = lw.env.get(name)
            if init is None:
                return None
            if kind == 'add' and _is_listy(norm(init)):
                kind = 'concat'          # list accumulation written as  acc = acc + xs
                c = replace(c, lambda x: ('list', ()) if x == C(0) else None) if c[0] == 'if' else c
            if kind == 'concat':
                out[name] = ('concat', (init, ('flat', ('map', lam([p], c), iter_term))))
            else:
                out[name] = ('binop', 'Add', init, call(G('sum'), [('map', lam([p], c), iter_term)]))
        # temporaries and the loop target are dead after the loop
        return out


def _extreme_by_key(self, idx, assigned, pos, lw, iter_term, body, rest):
    """Recognise   d = {}; for x in S: v = V(x); if K(x) not in d or v < d[K(x)]: d[K(x)] = v
    (the smallest - or with >, the largest - V per key K) and turn it into the grouped form
    dict((k, min(V(x) for x in g)) for k, g in groupby(sorted(S, key=K), key=K))  - the same dictionary up to the order of its
    entries. Returns {name: term after the loop} or None."""
    item = ('phi', idx, '$item')
    if body[0] == 'continue' and not body[2]:
        # d[K] = min(d.get(K, V), V)   (the unconditional spelling of the same accumulation)
        vals1 = dict((kw[1][1], kw[2]) for kw in body[1][1])
        rest_names1 = set()
        for stn in rest:
            if isinstance(stn, ast.AST):
                rest_names1 |= {n.id for n in ast.walk(stn) if isinstance(n, ast.Name)}
        tgt = None
        for name in assigned:
            phi = ('phi', idx, pos[name])
            v = vals1.get(pos[name])
            if v is None:
                return None
            others1 = any(x[0] == 'phi' and x[1] == idx and x != item for x in walk(v))
            if not others1:
                if name in rest_names1:
                    return None
                continue
            if tgt is not None or v[0] != 'setitem' or v[1] != phi or lw.env.get(name) != ('dict', ()):
                return None
            key, new = v[2], norm(v[3])
            if any(x[0] == 'phi' and x[1] == idx and x != item for x in walk(key)):
                return None
            if not (new[0] == 'call' and new[1] in (G('min'), G('max')) and len(new[2]) == 2 and not new[3]):
                return None
            a_, b_ = new[2]
            get = lambda val: norm(call(('attr', phi, 'get'), [key, val]))
            val = b_ if a_ == get(b_) else (a_ if b_ == get(a_) else None)
            if val is None or any(x[0] == 'phi' and x[1] == idx and x != item for x in walk(val)):
                return None
            tgt = (name, key, val, new[1][1])
        if tgt is None:
            return None
        name, key, val, which = tgt
        at = lambda t, p_: replace(t, lambda x: V(p_) if x == item else None)
        g, x, y, z = fresh('grp'), fresh('it'), fresh('it'), fresh('it')
        grouped = call(G('itertools.groupby'), [call(G('sorted'), [iter_term], [('key', lam([y], at(key, y)))])], [('key', lam([z], at(key, z)))])
        per = lam([g], ('tuple', (('sub', V(g), C(0)), call(G(which), [call(G('map'), [lam([x], at(val, x)), ('sub', V(g), C(1))])]))))
        return {name: call(G('dict'), [call(G('map'), [per, grouped])])}
    if body[0] != 'if' or body[2][0] != 'continue' or body[3][0] != 'continue' or body[2][2] or body[3][2]:
        return None
    rest_names = set()
    for stn in rest:
        if isinstance(stn, ast.AST):
            rest_names |= {n.id for n in ast.walk(stn) if isinstance(n, ast.Name)}
    vals = [dict((kw[1][1], kw[2]) for kw in b[1][1]) for b in (body[2], body[3])]
    target = None
    for name in assigned:
        phi = ('phi', idx, pos[name])
        a, b = vals[0].get(pos[name]), vals[1].get(pos[name])
        if a is None or b is None:
            return None
        others = lambda t: any(x[0] == 'phi' and x[1] == idx and x != item for x in walk(t))
        if a == b and not others(a):
            if name in rest_names:
                return None               # a temporary whose last value is used after the loop
            continue
        if target is not None:
            return None
        keep, upd, cond_keeps = (a, b, True) if a == phi else (b, a, False)
        if keep != phi or upd[0] != 'setitem' or upd[1] != phi:
            return None
        key, val = upd[2], upd[3]
        if others(key) or others(val) or lw.env.get(name) != ('dict', ()):
            return None
        neg = {'Eq': 'NotEq', 'NotEq': 'Eq', 'Lt': 'GtE', 'GtE': 'Lt', 'Gt': 'LtE', 'LtE': 'Gt', 'In': 'NotIn', 'NotIn': 'In'}
        c = norm(body[1])
        if c[0] == 'not':
            c, cond_keeps = c[1], not cond_keeps
        if c[0] != ('and' if cond_keeps else 'or') or len(c[1]) != 2 or any(x[0] != 'cmp' or x[1] not in neg for x in c[1]):
            return None
        parts = list(c[1]) if cond_keeps else [('cmp', neg[x[1]], x[2], x[3]) for x in c[1]]     # when the entry is kept
        cur = norm(('sub', phi, key))
        present = ('cmp', 'In', norm(key), phi)
        if present not in parts:
            return None
        test = [x for x in parts if x != present][0]
        flip = {'Lt': 'Gt', 'Gt': 'Lt', 'LtE': 'GtE', 'GtE': 'LtE'}
        if test[3] == norm(val) and test[2] == cur and test[1] in flip:
            test = ('cmp', flip[test[1]], test[3], test[2])
        # kept when the stored value is already as small (min) / as large (max) as the new one
        kinds = {'GtE': 'min', 'Gt': 'min', 'LtE': 'max', 'Lt': 'max'}
        if not (test[2] == norm(val) and test[3] == cur and test[1] in kinds):
            return None
        kinds = {test: kinds[test[1]]}
        target = (name, key, val, kinds[test])
    if target is None:
        return None
    name, key, val, which = target
    at = lambda t, p_: replace(t, lambda x: V(p_) if x == item else None)
    g, x, y, z = fresh('grp'), fresh('it'), fresh('it'), fresh('it')
    grouped = call(G('itertools.groupby'), [call(G('sorted'), [iter_term], [('key', lam([y], at(key, y)))])], [('key', lam([z], at(key, z)))])
    per = lam([g], ('tuple', (('sub', V(g), C(0)), call(G(which), [call(G('map'), [lam([x], at(val, x)), ('sub', V(g), C(1))])]))))
    return {name: call(G('dict'), [call(G('map'), [per, grouped])])}


FuncLower._summarise_extreme_by_key = _extreme_by_key


def _observational(callnode):
    d = dotted(callnode.func) or ""
    head = d.split(".")[0]
    return d == "print" or d.startswith("logging.") or d.startswith("warnings.warn") or \
        (head in ("logger", "log", "_logger", "_log", "LOGGER") and d.split(".")[-1] in ("debug", "info", "warning", "error", "exception", "critical", "log"))


def _safe_subscripts(callnode):
    """the call with every subscript `X[i]` that one of its guards (`if len(X) > k:` / `>= k` / `if X:`) shows to be in range
    replaced by a plain name (so that it counts as evaluating nothing that can fail)"""
    guards = getattr(callnode, '_guards', None)
    if not guards:
        return callnode
    bound = {}
    for g in guards:
        tests = g.values if isinstance(g, ast.BoolOp) and isinstance(g.op, ast.And) else [g]
        for t in tests:
            if isinstance(t, ast.Compare) and len(t.ops) == 1 and isinstance(t.left, ast.Call) and dotted(t.left.func) == 'len' \
                    and len(t.left.args) == 1 and isinstance(t.comparators[0], ast.Constant) and isinstance(t.comparators[0].value, int):
                k_ = t.comparators[0].value
                n_ = k_ + 1 if isinstance(t.ops[0], ast.Gt) else (k_ if isinstance(t.ops[0], (ast.GtE, ast.Eq)) else 0)
                key = ast.dump(t.left.args[0])
                bound[key] = max(bound.get(key, 0), n_)
            elif isinstance(t, (ast.Name, ast.Attribute)):
                bound[ast.dump(t)] = max(bound.get(ast.dump(t), 0), 1)

    class R(ast.NodeTransformer):
        def visit_Subscript(self, n):
            self.generic_visit(n)
            if isinstance(n.slice, ast.Constant) and isinstance(n.slice.value, int) and isinstance(n.ctx, ast.Load):
                b_ = bound.get(ast.dump(n.value), 0)
                if 0 <= n.slice.value < b_ or (n.slice.value < 0 and -n.slice.value <= b_):
                    return ast.copy_location(ast.Name(id='__in_range__', ctx=ast.Load()), n)
            return n
    import copy
    return R().visit(copy.deepcopy(callnode))


def _trivial_diag(st):
    """a logging / print statement all of whose arguments are constants, names or attribute chains (evaluates nothing that can fail)"""
    if not (isinstance(st, ast.Expr) and isinstance(st.value, ast.Call) and _observational(st.value)):
        return False
    def simple(x):
        while isinstance(x, ast.Attribute):
            x = x.value
        return isinstance(x, (ast.Constant, ast.Name))
    return all(simple(a) for a in st.value.args) and all(k.arg is not None and simple(k.value) for k in st.value.keywords)


def _as_load(node):
    n = ast.parse(ast.unparse(node), mode='eval').body
    return n


# ------------------------------------------------------------------------------------------------
# normalisation: combinator lowering, beta reduction, sequence fusion, constant folding
# ------------------------------------------------------------------------------------------------
SEQ = ('map', 'filter', 'concat', 'flat', 'zip', 'list')


def apply(fn, args, kw=()):
    args = list(args)
    if fn[0] == 'lam':
        ps = list(fn[1])
        if not any(a[0] in ('star', 'dstar') for a in args) and len(args) <= len(ps):
            bind = dict(zip(ps, args))
            rest = ps[len(args):]
            ok = True
            for k, v in kw:
                base = [p for p in rest if p.split('#')[0] == k]
                if base:
                    bind[base[0]] = v
                    rest.remove(base[0])
                else:
                    ok = False
            if ok and not rest:
                return norm(subst(fn[2], bind))
    return norm_call(fn, args, list(kw))


def _lam1(f):
    x = fresh('x')
    return lam([x], f(V(x)))


def compose(fs):
    return _lam1(lambda x: _compose_apply(fs, x))


def _compose_apply(fs, x):
    body = x
    for f in reversed(fs):
        body = apply(f, [body])
    return body


def _splice(args):
    out = []
    for a in args:
        if a[0] == 'star' and a[1][0] in ('list', 'tuple'):
            out.extend(a[1][1])
        else:
            out.append(a)
    return out


def aeq(a, b):
    """alpha-equivalence (fresh lambda parameter names differ between two normalisations of the same source)"""
    return a == b or debruijn(a) == debruijn(b)


def norm(t):
    if not is_node(t):
        return t
    k = t[0]
    if k in ('const', 'var', 'glob', 'bv', 'opaque'):
        return t
    t = mapt(norm, t)
    k = t[0]
    if k == 'call':
        return norm_call(t[1], list(t[2]), list(t[3]))
    if k == 'map':
        f, xs = t[1], t[2]
        if xs == ('list', ()):
            return xs
        if xs[0] == 'map':
            g = xs[1]
            return norm(('map', _lam1(lambda x: apply(f, [apply(g, [x])])), xs[2]))
        if f[0] == 'lam' and len(f[1]) == 1 and f[2] == V(f[1][0]):
            return xs                                   # map identity
        if f[0] == 'lam' and len(f[1]) == 1 and f[2] == ('sub', V(f[1][0]), C(0)) and xs[0] == 'filter' and xs[1][0] == 'lam' \
                and xs[1][2] == ('sub', V(xs[1][1][0]), C(1)) and xs[2][0] == 'list' and xs[2][1] \
                and all(e[0] == 'tuple' and len(e[1]) == 2 for e in xs[2][1]):
            # [a for (a, keep) in [(a1, k1), (a2, k2), ...] if keep]  ==  itertools.compress([a1, a2, ...], [k1, k2, ...])
            return call(G('itertools.compress'), [('list', tuple(e[1][0] for e in xs[2][1])), ('list', tuple(e[1][1] for e in xs[2][1]))])
        if f[0] == 'lam' and len(f[1]) == 1 and _pairs_source(xs):
            # elements of enumerate(...) / d.items() / zip(a, b) are pairs: (p[0], p[1]) is p
            p = V(f[1][0])
            pair = ('tuple', (('sub', p, C(0)), ('sub', p, C(1))))
            if contains(f[2], lambda x: x == pair):
                return norm(('map', ('lam', f[1], replace(f[2], lambda x: p if x == pair else None)), xs))
        if f[0] != 'lam':
            return ('map', _lam1(lambda x: apply(f, [x])), xs)   # eta-expand for uniform shape
        return t
    if k == 'flat':
        m = t[1]
        if m[0] == 'map' and m[1][0] == 'lam' and len(m[1][1]) == 1:
            body, p, xs = m[1][2], m[1][1][0], m[2]
            if body[0] == 'list' and len(body[1]) == 1 and body[1][0][0] != 'star':
                return norm(('map', lam([p], body[1][0]), xs))                      # flat([[e] for x]) = [e for x]
            if body[0] == 'if' and body[3] == ('list', ()):
                return norm(('flat', ('map', lam([p], body[2]), ('filter', lam([p], body[1]), xs))))
            if body[0] == 'if' and body[2] == ('list', ()):
                return norm(('flat', ('map', lam([p], body[3]), ('filter', lam([p], norm(('not', body[1]))), xs))))
        return t
    if k == 'filter':
        f = t[1]
        if f[0] != 'lam' and f != NONE:
            return ('filter', _lam1(lambda x: apply(f, [x])), t[2])
        return t
    if k == 'concat':
        parts = []
        for p in t[1]:
            if p[0] == 'call' and p[1] in (G('list'), G('iter'), G('tuple')) and len(p[2]) == 1 and not p[3]:
                p = p[2][0]                              # element-wise: list(x) inside a concatenation is x
            if p[0] == 'concat':
                parts.extend(p[1])
            elif p[0] == 'star':
                return t
            else:
                parts.append(p)
        # merge adjacent list literals
        merged = []
        for p in parts:
            if merged and merged[-1][0] == 'list' and p[0] == 'list':
                merged[-1] = ('list', merged[-1][1] + p[1])
            else:
                merged.append(p)
        merged = [p for p in merged if p != ('list', ())] or [('list', ())]
        # map(f, A) ++ map(f, B) is map(f, A ++ B)
        if len(merged) >= 2 and all(p[0] == 'map' for p in merged) and all(aeq(p[1], merged[0][1]) for p in merged[1:]):
            return norm(('map', merged[0][1], ('concat', tuple(p[2] for p in merged))))
        return merged[0] if len(merged) == 1 else ('concat', tuple(merged))
    if k == 'zip':
        parts = _splice(t[1])
        # iterating a dict is iterating its keys
        parts = [call(('attr', p_, 'keys')) if (p_[0] == 'dict' or (p_[0] == 'call' and p_[1] == G('dict'))) else p_ for p_ in parts]
        # zip(range(len(D)), X) == enumerate(X)  when X is D or a view of the dict D
        if len(parts) == 2 and parts[0][0] == 'call' and parts[0][1] == G('range') and len(parts[0][2]) == 1 and not parts[0][3] \
                and parts[0][2][0][0] == 'call' and parts[0][2][0][1] == G('len') and len(parts[0][2][0][2]) == 1:
            d = parts[0][2][0][2][0]
            x = parts[1]
            if aeq(x, d) or (x[0] == 'call' and x[1][0] == 'attr' and aeq(x[1][1], d) and x[1][2] in ('values', 'keys', 'items')):
                return call(G('enumerate'), [x])
        # zip(X, enumerate(X)) == [(u[1], u) for u in enumerate(X)]
        if len(parts) == 2 and parts[1][0] == 'call' and parts[1][1] == G('enumerate') and len(parts[1][2]) == 1 and aeq(parts[1][2][0], parts[0]):
            return norm(('map', _lam1(lambda u: ('tuple', (norm(('sub', u, C(1))), u))), parts[1]))
        # zip(d.keys(), d.values()) == d.items()   (and the swapped pairing)
        if len(parts) == 2 and all(p[0] == 'call' and p[1][0] == 'attr' and p[1][2] in ('keys', 'values') and not p[2] and not p[3] for p in parts) \
                and aeq(parts[0][1][1], parts[1][1][1]) and parts[0][1][2] != parts[1][1][2]:
            items = call(('attr', parts[0][1][1], 'items'))
            if parts[0][1][2] == 'keys':
                return items
            return norm(('map', _lam1(lambda u: ('tuple', (norm(('sub', u, C(1))), norm(('sub', u, C(0)))))), items))
        if len(parts) >= 2 and all(p[0] == 'map' for p in parts) and all(aeq(p[2], parts[0][2]) for p in parts):
            src = parts[0][2]
            return norm(('map', _lam1(lambda x: ('tuple', tuple(apply(p[1], [x]) for p in parts))), src))
        if len(parts) == 2 and parts[1][0] == 'map' and aeq(parts[0], parts[1][2]):
            return norm(('map', _lam1(lambda x: ('tuple', (x, apply(parts[1][1], [x])))), parts[0]))
        if len(parts) == 2 and parts[0][0] == 'map' and aeq(parts[1], parts[0][2]):
            return norm(('map', _lam1(lambda x: ('tuple', (apply(parts[0][1], [x]), x))), parts[1]))
        if len(parts) >= 2 and any(p[0] == 'map' for p in parts) and not any(p[0] == 'star' for p in parts):
            # zip(map(f, X), Y)  ==  [(f(x), y) for (x, y) in zip(X, Y)]
            bases = tuple(p[2] if p[0] == 'map' else p for p in parts)
            return norm(('map', _lam1(lambda t0: ('tuple', tuple(
                apply(p[1], [norm(('sub', t0, C(i)))]) if p[0] == 'map' else norm(('sub', t0, C(i))) for i, p in enumerate(parts)))),
                ('zip', bases)))
        return ('zip', tuple(parts))
    if k == 'not':
        a = t[1]
        if a[0] == 'seq':
            return ('seq', a[1], norm(('not', a[2])))
        if a[0] == 'not':
            return a[1]
        if a[0] == 'const':
            return C(not a[1])
        if a[0] == 'cmp':
            neg = {'Eq': 'NotEq', 'NotEq': 'Eq', 'Lt': 'GtE', 'GtE': 'Lt', 'Gt': 'LtE', 'LtE': 'Gt', 'In': 'NotIn',
                   'NotIn': 'In', 'Is': 'IsNot', 'IsNot': 'Is'}
            return norm(('cmp', neg[a[1]], a[2], a[3]))
        if a[0] in ('map', 'filter', 'list', 'concat'):
            return norm(('cmp', 'Eq', call(G('len'), [a]), C(0)))     # an empty list is false
        return t
    if k == 'if':
        c = t[1]
        if c[0] == 'const':
            return t[2] if c[1] else t[3]
        if c[0] in ('list', 'tuple', 'set', 'dict') and (not c[1] or all(_total(x) for x in c[1])) and \
                not any(is_node(x) and x[0] in ('star', 'dstar') for x in c[1]):
            return t[2] if c[1] else t[3]           # a display is true iff it has an element
        if t[2] == t[3] or (t[2][0] == t[3][0] and len(t[2]) == len(t[3]) and aeq(t[2], t[3])):
            # both branches the same: the test decides nothing, but evaluating it still happens (it may raise) unless it is
            # total or what it evaluates is evaluated by the branch anyway
            cores = _partial_cores(c)
            if all(_contains_aeq(t[2], y) for y in cores):
                return t[2]
            r = t[2]
            for y in reversed(cores):
                r = _prepend_effect(r, ('expr', y)) if r is not None else None
            if r is not None:
                return r
            return t
        if c[0] in ('map', 'filter', 'concat'):
            # a list used as a test is true iff it is not empty
            return norm(('if', ('cmp', 'NotEq', call(G('len'), [c]), C(0)), t[2], t[3]))
        # (map(f, A) if c else [])  is  map(f, A if c else [])  (and the mirrored form)
        if t[2][0] == 'map' and t[3] == ('list', ()):
            return ('map', t[2][1], ('if', c, t[2][2], ('list', ())))
        if t[3][0] == 'map' and t[2] == ('list', ()):
            return ('map', t[3][1], ('if', c, ('list', ()), t[3][2]))
        return t
    if k == 'cmp' and t[1] in ('Is', 'IsNot') and t[2][0] == 'const' and t[3][0] == 'const' and (t[2][1] is None or t[3][1] is None):
        return C((t[2][1] is t[3][1]) == (t[1] == 'Is'))          # identity with None between constants
    if k == 'cmp' and t[1] in ('Eq', 'NotEq') and _const_display(t[2]) and _const_display(t[3]):
        # two constants (or tuples of constants): Python's own equality decides
        py = lambda x: x[1] if x[0] == 'const' else tuple(py(y) for y in x[1])
        return C((py(t[2]) == py(t[3])) == (t[1] == 'Eq'))
    if k == 'cmp':
        a, b = t[2], t[3]
        # axiom: graphlib.TopologicalSorter.prepare() returns None (it is called for its exception): None == X.prepare() is
        # "evaluate X.prepare(), then True"
        for x, y in ((a, b), (b, a)):
            if t[1] == 'Eq' and x == NONE and y[0] == 'call' and y[1][0] == 'attr' and y[1][2] == 'prepare' and not y[2] and not y[3]:
                return ('seq', (y,), C(True))
        # identity with None of something that is never None (a display, a mapped / filtered / concatenated sequence, a
        # lambda, a comparison, the result of list / tuple / sorted / len / dict / set / str / int / sum)
        if t[1] in ('Is', 'IsNot') and NONE in (a, b):
            other = b if a == NONE else a
            if _never_none(other):
                return C(t[1] == 'IsNot')
        if a[0] == 'const' and b[0] == 'const':
            try:
                singletons = (a[1] is None or isinstance(a[1], bool)) or (b[1] is None or isinstance(b[1], bool))
                r = {'Eq': a[1] == b[1], 'NotEq': a[1] != b[1], 'Lt': a[1] < b[1], 'LtE': a[1] <= b[1],
                     'Gt': a[1] > b[1], 'GtE': a[1] >= b[1],
                     # identity is only decidable for the singletons None / True / False (an int is not an enum member)
                     'Is': (a[1] is b[1]) if singletons else None, 'IsNot': (a[1] is not b[1]) if singletons else None}.get(t[1])
                if r is not None:
                    return C(bool(r))
            except TypeError:
                pass
        if t[1] in ('In', 'NotIn') and a[0] == 'const' and b[0] in ('list', 'tuple') and all(x[0] == 'const' for x in b[1]):
            r = a[1] in [x[1] for x in b[1]]
            return C(r if t[1] == 'In' else not r)
        # membership in a display of constants does not depend on the kind of display (list / tuple / set) nor on the order
        if t[1] in ('In', 'NotIn') and b[0] in ('list', 'tuple', 'set') and b[1] and all(_const_display(x) for x in b[1]) \
                and (b[0] != 'tuple' or list(b[1]) != sorted(set(b[1]), key=repr)):
            return ('cmp', t[1], a, ('tuple', tuple(sorted(set(b[1]), key=repr))))
        # comparison of a tuple of terms with a scalar broadcasts (numpy semantics) - used by the bounds kernel
        if t[1] in ('GtE', 'Gt', 'Lt', 'LtE') and a[0] == 'tuple' and a[1] and all(x[0] == 'sigma' or _is_sum(x) for x in a[1]) \
                and b[0] != 'tuple':
            return ('tuple', tuple(norm(('cmp', t[1], x, b)) for x in a[1]))
        return t
    if k == 'binop':
        op, a, b = t[1], t[2], t[3]
        if op == 'MatMult':
            return norm_call(G('numpy.matmul'), [a, b], [])           # a @ b
        # d1 | d2 on dicts is {**d1, **d2}; a conditional operand is lifted out first
        if op == 'BitOr' and (_dictlike(a) or _dictlike(b)):
            if a[0] == 'if' and _dictlike(a):
                return norm(('if', a[1], ('binop', 'BitOr', a[2], b), ('binop', 'BitOr', a[3], b)))
            if b[0] == 'if' and _dictlike(b):
                return norm(('if', b[1], ('binop', 'BitOr', a, b[2]), ('binop', 'BitOr', a, b[3])))
            return norm(('dict', (('dstar', a), ('dstar', b))))
        if a[0] == 'const' and b[0] == 'const' and isinstance(a[1], (int, float)) and isinstance(b[1], (int, float)):
            try:
                r = {'Add': lambda: a[1] + b[1], 'Sub': lambda: a[1] - b[1], 'Mult': lambda: a[1] * b[1]}.get(op)
                if r is not None:
                    return C(r())
            except Exception:
                pass
        # list / string concatenation is not arithmetic
        if op == 'Add' and (_is_listy(a) or _is_listy(b)):
            return norm(('concat', (a, b)))
        if op == 'Add' and (_is_stringy(a) or _is_stringy(b)):
            la = a[1] if a[0] == 'strcat' else (a,)
            lb = b[1] if b[0] == 'strcat' else (b,)
            return ('strcat', tuple(la) + tuple(lb))
        # (tuple of comparisons) * 1  ->  tuple of 0/1 indicators
        if op == 'Mult' and b == C(1) and a[0] == 'tuple' and all(x[0] == 'cmp' for x in a[1]):
            return ('tuple', tuple(('binop', 'Mult', x, C(1)) for x in a[1]))
        if op == 'Mult' and a == C(1) and b[0] == 'tuple' and all(x[0] == 'cmp' for x in b[1]):
            return ('tuple', tuple(('binop', 'Mult', x, C(1)) for x in b[1]))
        return t
    if k == 'sub':
        o, i = t[1], t[2]
        # reading row j of an array whose row i != j was (mask-)assigned: the write is not visible
        if o[0] == 'setitem' and i[0] == 'const' and isinstance(i[1], int) and o[2][0] == 'tuple' and len(o[2][1]) >= 1 \
                and o[2][1][0][0] == 'const' and isinstance(o[2][1][0][1], int) and o[2][1][0][1] != i[1]:
            return norm(('sub', o[1], i))
        if o[0] in ('tuple', 'list') and len(o[1]) == 2 and i[0] in ('cmp', 'and', 'or', 'not') and not any(x[0] == 'star' for x in o[1]):
            return norm(('if', i, o[1][1], o[1][0]))        # [a, b][cond] == b if cond else a
        if o[0] in ('tuple', 'list') and i[0] == 'const' and isinstance(i[1], int) and not any(x[0] == 'star' for x in o[1]):
            if -len(o[1]) <= i[1] < len(o[1]):
                return o[1][i[1]]
        return t
    if k == 'and' and len(t[1]) == 2:
        a, b = t[1]
        if a[0] == 'binop' and a[1] == 'Mult' and ((a[2] == C(1) and a[3][0] == 'cmp') or (a[3] == C(1) and a[2][0] == 'cmp')):
            c = a[3] if a[2] == C(1) else a[2]
            return norm(('if', c, b, C(0)))               # 1*(c) and e  ==  e if c else 0
    if k == 'or' and len(t[1]) >= 2 and all(p[0] == 'call' and p[1] == G('issubclass') and len(p[2]) == 2 and not p[3] for p in t[1]) \
            and len({p[2][0] for p in t[1]}) == 1:
        classes = []
        for p in t[1]:
            classes.extend(p[2][1][1] if p[2][1][0] == 'tuple' else (p[2][1],))
        return call(G('issubclass'), [t[1][0][2][0], ('tuple', tuple(classes))])
    if k == 'and' or k == 'or':
        parts = []
        for p in t[1]:
            if p[0] == k:
                parts.extend(p[1])
            else:
                parts.append(p)
        out = []
        for p in parts:
            if p[0] == 'const':
                if k == 'and' and not p[1]:
                    return C(False) if all(q[0] == 'const' for q in out) else ('and', tuple(out + [p]))
                if k == 'or' and p[1]:
                    return p if not out else ('or', tuple(out + [p]))
                continue
            out.append(p)
        if not out:
            return C(k == 'and')
        return out[0] if len(out) == 1 else (k, tuple(out))
    if k == 'attr':
        o = t[1]
        if o[0] == 'call' and o[1][0] == 'glob' and not o[2] and PROGRAM is not None and o[1][1] in PROGRAM.classes:
            # K(.., p=a, ..).f is a where K's constructor stores its parameter p in field f on every path (read off the code)
            proj = _ctor_projection(o[1][1])
            if t[2] in proj and proj[t[2]] in dict(o[3]):
                return dict(o[3])[proj[t[2]]]
        if o[0] == 'upd':
            # read of an attribute of a functionally updated local object
            cur = o
            while cur[0] == 'upd':
                if cur[2] == t[2]:
                    return cur[3]
                cur = cur[1]
            return ('attr', cur, t[2]) if cur is not o else t
        return t
    if k == 'lam' and not isinstance(t[1], int) and t[2][0] in ('ret', 'if'):
        e = _expr_of_block(t[2]) if _has_ret(t[2]) else None
        if e is not None:
            return norm(('lam', t[1], e))
        return t
    if k == 'dict' and len(t[1]) >= 2 and t[1][0][0] == 'dstar' and t[1][0][1][0] == 'call' and all(kv[0] == 'kw' for kv in t[1][1:]):
        base = t[1][0][1]
        for kv in t[1][1:]:
            base = ('setitem', base, kv[1], kv[2])
        return norm(base)
    if k == 'dict' and any(kv[0] == 'dstar' for kv in t[1]):
        items = []
        for i, kv in enumerate(t[1]):
            if kv[0] == 'dstar' and kv[1][0] == 'dict':
                items.extend(kv[1][1])                       # {**{...}, ...}
            elif kv[0] == 'dstar' and kv[1][0] == 'if' and kv[1][2][0] == 'dict' and kv[1][3][0] == 'dict':
                pre, post = tuple(items), tuple(t[1][i + 1:])
                return norm(('if', kv[1][1], ('dict', pre + (('dstar', kv[1][2]),) + post), ('dict', pre + (('dstar', kv[1][3]),) + post)))
            else:
                items.append(kv)
        # later keys win
        out = []
        for kv in items:
            if kv[0] == 'kw':
                out = [o for o in out if not (o[0] == 'kw' and o[1] == kv[1])]
            out.append(kv)
        return ('dict', tuple(out))
    if k in ('setitem', 'delitem') and t[1][0] == 'if' and t[2][0] == 'const' and t[1][2][0] == 'dict' and t[1][3][0] == 'dict':
        rest = t[3:] if k == 'setitem' else ()
        return norm(('if', t[1][1], (k, t[1][2], t[2]) + rest, (k, t[1][3], t[2]) + rest))
    if k == 'setitem' and t[1][0] == 'dict' and t[2][0] == 'const' and isinstance(t[2][1], str):
        items = [kv for kv in t[1][1] if not (kv[0] == 'kw' and kv[1] == t[2])]
        if len(items) == len(t[1][1]) or t[1][1][-1][0] == 'kw' and t[1][1][-1][1] == t[2] or not any(kv[0] == 'dstar' for kv in t[1][1]):
            return ('dict', tuple(items) + (('kw', t[2], t[3]),))
        return t
    if k == 'delitem' and t[1][0] == 'dict' and t[2][0] == 'const' and not any(kv[0] == 'dstar' for kv in t[1][1]):
        items = tuple(kv for kv in t[1][1] if not (kv[0] == 'kw' and kv[1] == t[2]))
        if len(items) != len(t[1][1]):
            return ('dict', items)
        return t
    if k in ('ret', 'raise') and len(t) == 3 and any(is_node(e) and e[0] == 'expr' and e[1][0] in ('const', 'ge0', 'eq0', 'ne0', 'cmp') and _total(e[1]) for e in t[2]):
        # an expression statement that has become a constant / a total test does nothing
        return norm((k, t[1], tuple(e for e in t[2] if not (is_node(e) and e[0] == 'expr' and e[1][0] in ('const', 'ge0', 'eq0', 'ne0', 'cmp') and _total(e[1])))))
    if k == 'ret':
        v = t[1]
        if v[0] == 'if':
            # `return a if c else b`  ==  `if c: return a` / `return b`
            return norm(('if', v[1], ('ret', v[2], t[2]), ('ret', v[3], t[2])))
        return t
    if k == 'upd' and t[2] in ('.update', '.extend') and t[3][0] == 'call' and t[3][1] == G('args') and len(t[3][2]) == 1 \
            and not t[3][3] and t[3][2][0] in (('dict', ()), ('list', ()), ('tuple', ())):
        return t[1]                    # d.update({}) / xs.extend([]) change nothing
    if k == 'try':
        hs = []
        for h in t[2]:
            cls, body = h[1], h[2]
            if cls == C('bare'):
                # `except:` and `except Exception:` differ only for KeyboardInterrupt / SystemExit / GeneratorExit
                cls = G('Exception')
            if body[0] == 'raise' and body[1] == C('reraise') and cls[0] == 'glob':
                body = ('raise', cls, body[2])           # `except X: raise` raises an X
            hs.append(('handler', cls, body))
        out = []
        for i, h in enumerate(hs):
            classes = [h[1]] if h[1][0] == 'glob' else (list(h[1][1]) if h[1][0] == 'tuple' else [None])
            if i + 1 < len(hs) and hs[i + 1][1] == G('Exception') and h[2] == hs[i + 1][2] and all(
                    x is not None and x[0] == 'glob' and x[1] not in ('KeyboardInterrupt', 'SystemExit', 'GeneratorExit', 'BaseException')
                    for x in classes):
                continue                                 # subsumed by the catch-all that follows with the same body
            out.append(h)
        return ('try', t[1], tuple(out))
    if k == 'raise':
        v = t[1]
        # the exception class matters, the message does not
        if v[0] == 'call' and v[1][0] == 'glob':
            return ('raise', v[1], t[2])
        return t
    return t


def _has_ret(t):
    return t[0] == 'ret' or (t[0] == 'if' and (_has_ret(t[2]) or _has_ret(t[3])))


def _pairs_source(xs):
    while xs[0] == 'filter':
        xs = xs[2]
    if xs[0] == 'call' and xs[1] == G('enumerate') and len(xs[2]) == 1:
        return True
    if xs[0] == 'call' and xs[1][0] == 'attr' and xs[1][2] == 'items' and not xs[2]:
        return True
    return xs[0] == 'zip' and len(xs[1]) == 2 and not any(p[0] == 'star' for p in xs[1])


def _is_sum(x):
    return x[0] == 'call' and x[1] == G('sum')


def _is_listy(a):
    return a[0] in ('list', 'concat', 'map', 'filter', 'flat', 'zip') or \
        (a[0] == 'call' and a[1] in (G('list'), G('sorted'))) or \
        (a[0] == 'call' and a[1][0] == 'attr' and a[1][2] == 'tolist')


def _is_stringy(a):
    return (a[0] == 'const' and isinstance(a[1], str)) or a[0] in ('fstr', 'strcat') or \
        (a[0] == 'call' and a[1] == G('str')) or (a[0] == 'call' and a[1][0] == 'attr' and a[1][2] in ('hexdigest', 'join', 'format'))


def norm_call(fn, args, kw):
    args = _splice(args)
    if fn[0] == 'glob':
        g = fn[1]
        if g == 'maz.compose' and not kw:
            return compose(args)
        if g == 'tuple' and len(args) == 1 and not kw and args[0][0] == 'tuple':
            return args[0]                  # tuple((a, b)) is (a, b)
        if g == 'pickle.dumps' and args and (len(args) == 2 or any(k_ == 'protocol' for k_, _ in kw)):
            # which pickle protocol is written is not observable through pickle.loads (it reads every protocol)
            return call(fn, args[:1], [(k_, v_) for k_, v_ in kw if k_ != 'protocol'])
        if g == '__nonempty__' and len(args) == 1 and not kw:
            # only whether the sequence is empty is observed: wrappers that keep emptiness are dropped
            a = args[0]
            while a[0] == 'call' and a[1][0] == 'glob' and len(a[2]) >= 1 and a[1][1] in (
                    'list', 'tuple', 'sorted', 'set', 'frozenset', 'reversed', 'iter', 'dict.fromkeys',
                    'more_itertools.unique_everseen', 'more_itertools.unique_justseen', 'collections.Counter',
                    'collections.OrderedDict.fromkeys'):
                a = a[2][0]
            return call(fn, [a])
        if g == 'maz.compose_pair' and len(args) == 2:
            return compose(args)
        if g == 'maz.fnmap' and not kw:
            return _lam1(lambda x: ('list', tuple(apply(f, [x]) for f in args)))
        if g == 'maz.ifttt' and len(args) == 3:
            return _lam1(lambda x: norm(('if', apply(args[0], [x]), apply(args[1], [x]), apply(args[2], [x]))))
        if g == 'maz.fnexcept' and len(args) == 2:
            return _lam1(lambda x: ('try', apply(args[0], [x]), (('handler', G('Exception'), apply(args[1], [x])),)))
        if g.endswith('__try__') and len(args) == 2:
            return ('try', args[0], (('handler', G('Exception'), args[1]),))
        if g == 'maz.invoke' and len(args) == 2 and not kw:
            return norm_call(args[0], [('star', args[1])], [])
        if g == 'maz.pospartial' and len(args) == 2 and args[1][0] in ('list', 'tuple'):
            try:
                pas = [(p[1][0][1], p[1][1]) for p in args[1][1]]
                if all(isinstance(i, int) for i, _ in pas):
                    def body(x):
                        a = [x]
                        for i, v in pas:
                            a.insert(i, v)
                        return apply(args[0], a)
                    return _lam1(body)
            except Exception:
                pass
        if g == 'maz.filter_map_concat' and 2 <= len(args) <= 3:
            p, tr = args[0], args[1]
            f = args[2] if len(args) == 3 else None
            return _lam1(lambda xs: ('map', _lam1(lambda x: norm(('if', apply(p, [x]), apply(tr, [x]),
                                                                   apply(f, [x]) if f else x))), xs))
        if g == 'functools.partial' and args:
            f0, pre = args[0], args[1:]
            if f0 == G('maz.invoke') and len(pre) == 1 and not kw:
                return _lam1(lambda x: norm_call(pre[0], [('star', x)], []))
            return _lam1(lambda x: apply(f0, pre + [x], kw))
        if g == 'operator.attrgetter' and len(args) == 1 and args[0][0] == 'const' and isinstance(args[0][1], str):
            return _lam1(lambda x: attr(x, *args[0][1].split('.')))
        if g == 'operator.attrgetter' and len(args) >= 2 and not kw and all(a[0] == 'const' and isinstance(a[1], str) for a in args):
            return _lam1(lambda x: ('tuple', tuple(attr(x, *a[1].split('.')) for a in args)))
        if g == 'operator.itemgetter' and len(args) >= 2 and not kw:
            return _lam1(lambda x: ('tuple', tuple(norm(('sub', x, a)) for a in args)))
        if g == 'operator.methodcaller' and args and args[0][0] == 'const':
            return _lam1(lambda x: norm_call(('attr', x, args[0][1]), args[1:], kw))
        if g == 'operator.itemgetter' and len(args) == 1:
            return _lam1(lambda x: norm(('sub', x, args[0])))
        if g == 'operator.not_' and len(args) == 1:
            return norm(('not', args[0]))
        if g in ('operator.eq', 'operator.ne', 'operator.lt', 'operator.le', 'operator.gt', 'operator.ge') and len(args) == 2:
            op = {'eq': 'Eq', 'ne': 'NotEq', 'lt': 'Lt', 'le': 'LtE', 'gt': 'Gt', 'ge': 'GtE'}[g.split('.')[1]]
            return norm(('cmp', op, args[0], args[1]))
        if g == 'operator.contains' and len(args) == 2:
            return norm(('cmp', 'In', args[1], args[0]))
        if g in ('operator.add', 'operator.sub', 'operator.mul') and len(args) == 2:
            return norm(('binop', {'add': 'Add', 'sub': 'Sub', 'mul': 'Mult'}[g.split('.')[1]], args[0], args[1]))
        if g == 'operator.neg' and len(args) == 1:
            return norm(('binop', 'Mult', C(-1), args[0]))
        if g == 'map' and len(args) == 2 and not kw:
            return norm(('map', args[0], args[1]))
        if g == 'map' and len(args) > 2 and not kw:
            return norm(('map', _lam1(lambda t: apply(args[0], [norm(('sub', t, C(i))) for i in range(len(args) - 1)])),
                         norm(('zip', tuple(args[1:])))))
        if g == 'itertools.starmap' and len(args) == 2 and not kw and args[0][0] == 'lam':
            n = len(args[0][1])
            return norm(('map', _lam1(lambda t0: apply(args[0], [norm(('sub', t0, C(i))) for i in range(n)])), args[1]))
        if g == 'filter' and len(args) == 2 and not kw:
            return norm(('filter', args[0], args[1]))
        if g in ('list', 'iter', 'tuple') and len(args) == 1 and not kw and args[0][0] in SEQ:
            return args[0]
        if g in ('list', 'iter', 'tuple') and len(args) == 1 and not kw and args[0][0] == 'call' and args[0][1] == G('itertools.compress'):
            return args[0]
        if g in ('list', 'tuple') and not args and not kw:
            return ('list', ())
        if g == 'itertools.chain' and not kw:
            if any(a[0] == 'star' for a in args):
                # chain(a, *map(f, xs), b)  ->  concat(a, flat(map(f, xs)), b)
                return norm(('concat', tuple(('flat', a[1]) if a[0] == 'star' else a for a in args)))
            return norm(('concat', tuple(args)))
        if g == 'itertools.chain.from_iterable' and len(args) == 1:
            if args[0][0] == 'list':
                return norm(('concat', args[0][1]))
            return ('flat', args[0])
        # exact numpy synonyms (function form vs method form on an ndarray)
        if g in ('numpy.any', 'numpy.all', 'numpy.sum', 'numpy.min', 'numpy.max', 'numpy.amin', 'numpy.amax') and args \
                and args[0][0] not in ('star', 'dstar'):
            name = {'amin': 'min', 'amax': 'max'}.get(g.split('.')[1], g.split('.')[1])
            return norm_call(('attr', args[0], name), list(args[1:]), list(kw))
        if g == 'issubclass' and len(args) == 2 and not kw and args[0][0] == 'attr' and args[0][2] == '__class__' \
                and args[0][1][0] in ('tuple', 'list', 'dict', 'set'):
            # the class of a display is known
            kinds_ = [args[1]] if args[1][0] != 'tuple' else list(args[1][1])
            if G(args[0][1][0]) in kinds_:
                return C(True)
        if g == 'itertools.filterfalse' and len(args) == 2 and not kw:
            return norm(('filter', _lam1(lambda x: ('not', apply(args[0], [x]))), args[1]))
        if g == 'numpy.transpose' and len(args) == 1 and not kw:
            return ('attr', args[0], 'T')
        if g == 'zip' and not kw:
            return norm(('zip', tuple(args)))
        if g == 'maz.starzip' and len(args) == 1:
            return norm(('zip', (('star', args[0]),)))
        if g == 'functools.reduce' and len(args) == 3 and args[2] == ('list', ()) and args[0][0] == 'lam' \
                and len(args[0][1]) == 2:
            a, b = args[0][1]
            if args[0][2] in (('binop', 'Add', V(a), V(b)), ('concat', (V(a), V(b)))):
                return ('flat', args[1])
        if g == 'sum' and len(args) == 2 and args[1] == ('list', ()) and not kw:
            return norm(('flat', args[0]))                  # sum(list_of_lists, []) concatenates
        if g == 'len' and len(args) == 1 and not kw and args[0][0] == 'map':
            return norm_call(G('len'), [args[0][2]], [])           # a mapped list is as long as its source
        if g == 'numpy.full' and len(args) == 2 and not kw and args[1][0] == 'const' and isinstance(args[1][1], float):
            # numpy.full(shape, c) for a float c is c * numpy.ones(shape) (both float64)
            return norm(('binop', 'Mult', C(int(args[1][1]) if args[1][1] == int(args[1][1]) else args[1][1]),
                         call(G('numpy.ones'), [args[0]])))
        if g == 'len' and len(args) == 1 and args[0][0] in ('list', 'tuple') and not any(x[0] == 'star' for x in args[0][1]):
            return C(len(args[0][1]))
        if g == 'dict.get' and len(args) >= 2:
            return norm_call(('attr', args[0], 'get'), args[1:], kw)
        if g in ('dict.values', 'dict.keys', 'dict.items') and len(args) == 1:
            return norm_call(('attr', args[0], g.split('.')[1]), [], [])
        if g == 'getattr' and len(args) == 2 and args[1][0] == 'const' and isinstance(args[1][1], str):
            return ('attr', args[0], args[1][1])
        if g == 'isinstance' and len(args) == 2:
            return call(G('issubclass'), [('attr', args[0], '__class__'), args[1]])
        if g == 'type' and len(args) == 1:
            return ('attr', args[0], '__class__')
        if g in ('min', 'max') and len(args) == 1 and args[0][0] == 'tuple' and len(args[0][1]) == 2:
            a, b = args[0][1]
            # axiom: Bounds invariant lower <= upper  (established by Bounds.__init__, checked by E0)
            if a[0] == 'attr' and b[0] == 'attr' and a[1] == b[1] and (a[2], b[2]) == ('lower', 'upper'):
                return a if g == 'min' else b
        if g == 'int' and len(args) == 1 and args[0][0] == 'const' and isinstance(args[0][1], int):
            return args[0]
        if g == 'int' and len(args) == 1 and not kw and args[0][0] in ('cmp', 'not'):
            return ('binop', 'Mult', C(1), args[0])           # int(bool) == 1*bool
        if g == 'numpy.where' and len(args) == 3 and not kw and args[1][0] in ('const', 'glob'):
            # numpy.where(mask, c, X)  ==  Y = X.copy(); Y[mask] = c
            return ('setitem', call(('attr', args[2], 'copy')), args[0], args[1])
        if g == 'sorted' and len(args) == 1 and not kw and args[0][0] == 'map' and args[0][1][0] == 'lam' and len(args[0][1][1]) == 1:
            # positions taken from enumerate(...) (possibly filtered) are already ascending
            m = args[0]
            p0 = m[1][1][0]
            src = m[2]
            while src[0] == 'filter':
                src = src[2]
            if m[1][2] == ('sub', V(p0), C(0)) and src[0] == 'call' and src[1] == G('enumerate') and len(src[2]) == 1:
                return m
        if g == 'numpy.array' and len(args) == 1 and kw in ([('dtype', G('numpy.int64'))], [('dtype', G('int'))]) \
                and args[0][0] == 'map' and args[0][1][0] == 'lam' and len(args[0][1][1]) == 1:
            # an array of positions taken from enumerate(...) is an int64 array already (the explicit dtype only matters for the
            # empty list, whose default dtype is float64: the contents - none - are the same)
            m = args[0]
            p0 = m[1][1][0]
            src = m[2]
            while src[0] == 'filter':
                src = src[2]
            if m[1][2] == ('sub', V(p0), C(0)) and src[0] == 'call' and src[1] == G('enumerate') and len(src[2]) == 1:
                return call(G('numpy.array'), [m])
        if g == 'numpy.flatnonzero' and len(args) == 1 and not kw:
            # positions where a boolean mask built element by element is set:
            #   flatnonzero(fromiter(map(f, X), dtype=bool))  ==  array([i for i, x in enumerate(X) if f(x)])     (~mask: if not f(x))
            m, neg = args[0], False
            if m[0] == 'if' and m[2][0] != 'if' and m[3][0] != 'if':
                return norm(('if', m[1], call(fn, [m[2]]), call(fn, [m[3]])))
            if m[0] == 'inv':
                m, neg = m[1], True
            if m[0] == 'call' and m[1] in (G('numpy.fromiter'), G('numpy.array')) and len(m[2]) == 1 and m[2][0][0] == 'map' \
                    and m[2][0][1][0] == 'lam' and len(m[2][0][1][1]) == 1 and dict(m[3]).get('dtype', G('bool')) == G('bool') \
                    and m[2][0][1][2][0] in ('cmp', 'not', 'and', 'or', 'ge0'):
                f, xs = m[2][0][1], m[2][0][2]
                p_ = fresh('pos')
                test = apply(f, [('sub', V(p_), C(1))])
                if neg:
                    test = ('not', test)
                return norm(call(G('numpy.array'), [('map', lam([p_], ('sub', V(p_), C(0))),
                                                      ('filter', lam([p_], test), call(G('enumerate'), [xs])))]))
        if g in ('numpy.dot',) and len(args) == 2 and not kw:
            return call(G('numpy.matmul'), args)
        if g == 'numpy.array' and len(args) == 1 and not kw and args[0][0] == 'call' and args[0][1] == G('numpy.array') \
                and not args[0][3]:
            return args[0]
    if fn == G('sum') and len(args) == 1 and not kw and args[0][0] == 'map' and args[0][1][0] == 'lam' and len(args[0][1][1]) == 1:
        m = args[0]
        body, p, xs = m[1][2], m[1][1][0], m[2]
        if body[0] == 'if' and body[3] == C(0):
            return norm_call(G('sum'), [norm(('map', lam([p], body[2]), ('filter', lam([p], body[1]), xs)))], [])
        if body[0] == 'if' and body[2] == C(0):
            return norm_call(G('sum'), [norm(('map', lam([p], body[3]), ('filter', lam([p], norm(('not', body[1]))), xs)))], [])
    if fn[0] == 'lam':
        if not any(a[0] in ('star', 'dstar') for a in args):
            ps = list(fn[1])
            if len(args) <= len(ps):
                bind = dict(zip(ps, args))
                rest = ps[len(args):]
                ok = True
                for k, v in kw:
                    base = [p for p in rest if p.split('#')[0] == k]
                    if base:
                        bind[base[0]] = v
                        rest.remove(base[0])
                    else:
                        ok = False
                if ok and not rest:
                    return norm(subst(fn[2], bind))
    if fn[0] == 'attr' and fn[2] == 'get' and len(args) == 2 and args[1] == NONE and not kw:
        return call(fn, [args[0]])                     # d.get(k, None) == d.get(k)
    if fn[0] == 'attr' and kw and PROGRAM is not None and REF_PARAMS:
        # a method call that passes a parameter the method's reference does not have
        cands = [f for f in PROGRAM.functions.values() if f.cls is not None and f.name == fn[2] and f.qualname in REF_PARAMS]
        if len(cands) == 1 and not args:
            r = _call_with_new_parameter(cands[0], fn[1], list(kw))
            if r is not None:
                actual, base = r
                a_ = cands[0].node.args
                own_ = [x.arg for x in a_.posonlyargs + a_.args + a_.kwonlyargs]
                keep_ = set(own_[:len(REF_PARAMS[cands[0].qualname])])
                plain = call(fn, [], [(k_, v_) for k_, v_ in kw if k_ in keep_])
                folded = replace(actual, lambda x: plain if x == base else None)
                if folded != actual or actual == base:
                    return plain if actual == base else folded
    if fn[0] == 'attr':
        o, m = fn[1], fn[2]
        # X.ravel().tolist() is X.flatten().tolist() (the view / copy difference does not survive tolist())
        if m == 'tolist' and not args and not kw and o[0] == 'call' and o[1][0] == 'attr' and o[1][2] == 'ravel' and not o[2] and not o[3]:
            return call(('attr', call(('attr', o[1][1], 'flatten')), 'tolist'))
        # {k1: v1, k2: v2}.get(k, d) with constant keys and a constant k
        if m == 'get' and 1 <= len(args) <= 2 and not kw and o[0] == 'dict' and args[0][0] == 'const' and o[1] and \
                all(kv[0] == 'kw' and kv[1][0] == 'const' for kv in o[1]) and all(_total(kv[2]) for kv in o[1]):
            for kv in o[1]:
                if kv[1] == args[0] and type(kv[1][1]) is type(args[0][1]):
                    return kv[2]
            return args[1] if len(args) == 2 else NONE
        # an array of positions taken from enumerate(...) is an int64 array already (differs for the empty one's dtype only)
        if m == 'astype' and len(args) == 1 and not kw and args[0] in (G('numpy.int64'), G('int')) and o[0] == 'call' \
                and o[1] == G('numpy.array') and len(o[2]) == 1 and not o[3] and o[2][0][0] == 'map' and o[2][0][1][0] == 'lam' \
                and len(o[2][0][1][1]) == 1 and o[2][0][1][2] == ('sub', V(o[2][0][1][1][0]), C(0)):
            src = o[2][0][2]
            while src[0] == 'filter':
                src = src[2]
            if src[0] == 'call' and src[1] == G('enumerate') and len(src[2]) == 1:
                return o
        # np.array(list of k-tuples).sum(axis=0)  ->  k-tuple of sums
        if m == 'sum' and not args and kw == [('axis', C(0))] and o[0] == 'call' and o[1] == G('numpy.array') \
                and len(o[2]) == 1 and not o[3]:
            s = o[2][0]
            if s[0] == 'map' and s[1][0] == 'lam' and len(s[1][1]) == 1:
                body = s[1][2]
                p = s[1][1][0]
                body = _tuple_view(body)
                if body is not None:
                    return ('tuple', tuple(call(G('sum'), [norm(('map', lam([p], e), s[2]))]) for e in body))
        # X.as_tuple() is (X.lower, X.upper): contract of Bounds.as_tuple (an obligation of its own)
        if m == 'as_tuple' and not args and not kw:
            return ('tuple', (('attr', o, 'lower'), ('attr', o, 'upper')))
    b = bind_glob(fn, args, kw)
    if b is not None:
        return _lift_if(mapt(norm, b))
    if fn[0] == 'glob' and not args and PROGRAM is not None and (fn[1] in PROGRAM.classes or fn[1] in PROGRAM.functions):
        return _lift_if(call(fn, args, kw))
    return call(fn, args, kw)


def _lift_if(c):
    """canonical calls of repository functions: a conditional argument is lifted out of the call"""
    if c[0] != 'call' or c[2]:
        return c
    for i, (k, v) in enumerate(c[3]):
        if v[0] == 'if' and v[1][0] in ('cmp', 'and', 'or', 'not'):
            mk = lambda x: _lift_if(('call', c[1], (), c[3][:i] + ((k, x),) + c[3][i + 1:]))
            return ('if', v[1], mk(v[2]), mk(v[3]))
    return c


def _tuple_view(body):
    """View a term as a k-tuple of component terms, if its shape is known."""
    if body[0] == 'tuple' and not any(x[0] == 'star' for x in body[1]):
        return list(body[1])
    # X.as_tuple() on a Bounds: (X.lower, X.upper)   [Bounds.as_tuple contract, checked separately]
    if body[0] == 'call' and body[1][0] == 'attr' and body[1][2] == 'as_tuple' and not body[2] and not body[3]:
        b = body[1][1]
        return [('attr', b, 'lower'), ('attr', b, 'upper')]
    return None


# ------------------------------------------------------------------------------------------------
# alpha-normalisation (de Bruijn) and canonical forms
# ------------------------------------------------------------------------------------------------
def debruijn(t, depth=0, env=None):
    env = env or {}
    if not is_node(t):
        return t
    k = t[0]
    if k == 'var':
        if t[1] in env:
            d, i = env[t[1]]
            return ('bv', depth - d, i)
        return ('var', t[1].split('#')[0]) if '#' in t[1] else t
    if k in ('const', 'glob', 'bv', 'opaque'):
        return t
    if k == 'lam':
        e2 = dict(env)
        for i, p in enumerate(t[1]):
            e2[p] = (depth + 1, i)
        return ('lam', len(t[1]), debruijn(t[2], depth + 1, e2))
    return mapt(lambda x: debruijn(x, depth, env), t)


def _key(t):
    return repr(t)


def _poly_of(t):
    """Return dict monomial(tuple of atoms) -> coef, or None if t is not arithmetic."""
    if t[0] == 'const' and isinstance(t[1], (int, float)):
        return {(): int(t[1]) if isinstance(t[1], bool) else t[1]} if t[1] != 0 else {}
    if t[0] == 'poly':
        return {m: c for c, m in t[1]}
    if t[0] == 'binop' and t[1] in ('Add', 'Sub', 'Mult'):
        a, b = _poly_of(t[2]), _poly_of(t[3])
        if a is None:
            a = {(t[2],): 1}
        if b is None:
            b = {(t[3],): 1}
        if t[1] == 'Add':
            return _padd(a, b, 1)
        if t[1] == 'Sub':
            return _padd(a, b, -1)
        out = {}
        for m1, c1 in a.items():
            for m2, c2 in b.items():
                m = tuple(sorted(m1 + m2, key=_key))
                out[m] = out.get(m, 0) + c1 * c2
        return {m: c for m, c in out.items() if c != 0}
    return None


def _padd(a, b, s):
    out = dict(a)
    for m, c in b.items():
        out[m] = out.get(m, 0) + s * c
    return {m: c for m, c in out.items() if c != 0}


def _mk_poly(p):
    if not p:
        return C(0)
    items = sorted(((c, m) for m, c in p.items()), key=lambda cm: (_key(cm[1]), cm[0]))
    if len(items) == 1:
        c, m = items[0]
        if m == ():
            return C(c)
        if c == 1 and len(m) == 1:
            return m[0]
    return ('poly', tuple(items))


def canon(t):
    """Bottom-up canonical form. Expects a de Bruijn term."""
    if not is_node(t):
        return t
    k = t[0]
    if k in ('const', 'var', 'glob', 'bv', 'opaque'):
        return t
    t = mapt(canon, t)
    k = t[0]
    if k in ('ret', 'raise') and len(t) == 3 and any(is_node(e) and e[0] == 'expr' and e[1][0] in ('const', 'ge0', 'eq0', 'ne0', 'cmp') and _total(e[1]) for e in t[2]):
        # an expression statement that has become a constant / a total test does nothing
        return (k, t[1], tuple(e for e in t[2] if not (is_node(e) and e[0] == 'expr' and e[1][0] in ('const', 'ge0', 'eq0', 'ne0', 'cmp') and _total(e[1]))))
    if k == 'binop' and t[1] in ('Add', 'Sub', 'Mult'):
        p = _poly_of(t)
        return _mk_poly(p)
    if k == 'cmp':
        op, a, b = t[1], t[2], t[3]
        if op in ('Lt', 'LtE', 'Gt', 'GtE'):
            # integer normal form  p >= 0
            if op in ('Gt', 'GtE'):
                d = ('binop', 'Sub', a, b)
            else:
                d = ('binop', 'Sub', b, a)
            p = _poly_of(d)
            if op in ('Gt', 'Lt'):
                p = _padd(p, {(): 1}, -1)
            return ('ge0', _mk_poly(p))
        if op in ('Eq', 'NotEq') and _is_len(a) and _is_len(b):
            # a filtered list is at most as long as its source: len(filter(f, X)) == len(X)  <=>  len(filter(f, X)) - len(X) >= 0
            for short, full in ((a, b), (b, a)):
                src = _strip_seq(short[2][0])
                if src[0] == 'filter' and _strip_seq(src[2]) == _strip_seq(full[2][0]):
                    g = ('ge0', _mk_poly({(short,): 1, (full,): -1}))
                    return g if op == 'Eq' else canon(_negate_bool(g))
        if op in ('Eq', 'NotEq') and ((_is_len(a) and b == C(0)) or (_is_len(b) and a == C(0))):
            ln = a if _is_len(a) else b
            # len(x) == 0  <=>  -len(x) >= 0 ;  len(x) != 0  <=>  len(x) - 1 >= 0      (a length is non-negative)
            return ('ge0', _mk_poly({(ln,): -1})) if op == 'Eq' else ('ge0', _mk_poly({(ln,): 1, (): -1}))
        if op in ('Eq', 'NotEq'):
            pa, pb = _poly_of(a), _poly_of(b)
            if (pa is not None or pb is not None) and (a[0] in ('poly', 'const') or b[0] in ('poly', 'const')):
                d = _padd(pa if pa is not None else {(a,): 1}, pb if pb is not None else {(b,): 1}, -1)
                atoms = [(m, c) for m, c in d.items() if m != ()]
                if not atoms:
                    truth = (d.get((), 0) == 0)
                    return C(truth if op == 'Eq' else not truth)
                if len(atoms) == 1 and len(atoms[0][0]) == 1 and atoms[0][1] in (1, -1) and _is_boolean(atoms[0][0][0]):
                    # c*atom + k == 0  with a 0/1 atom
                    val = -d.get((), 0) * atoms[0][1]
                    atom = atoms[0][0][0]
                    if val == 1:
                        res = atom
                    elif val == 0:
                        res = _negate_bool(atom)
                    else:
                        return C(op != 'Eq')
                    return res if op == 'Eq' else _negate_bool(res)
            x, y = sorted([a, b], key=_key)
            return ('cmp', op, x, y)
        return t
    if k == 'call' and t[1] == G('sum') and len(t[2]) == 1 and t[2][0][0] == 'map' and t[2][0][1][0] == 'lam':
        m = t[2][0]
        body = m[1][2]
        p = _poly_of(body) if body[0] in ('poly', 'binop') else None
        if p:
            coefs = set(p.values())
            if len(coefs) == 1:
                c = coefs.pop()
                if c != 1 and () not in p:
                    inner = _mk_poly({mm: 1 for mm in p})
                    return _mk_poly({(('call', G('sum'), (('map', ('lam', m[1][1], inner), m[2]),), ()),): c})
        return t
    if k in ('and', 'or'):
        if len(t[1]) >= 2 and all(p_[0] == 'ge0' for p_ in t[1]) and len({_risky_factors(p_[1]) for p_ in t[1]}) == 1:
            # comparisons of names, attributes and lengths of names are total; where every test evaluates the same possibly
            # raising factors (e.g. the same len(filter(...))), whichever test comes first evaluates them first: in both cases
            # the order inside the conjunction / disjunction does not matter. Otherwise a test stays where it is.
            return (k, tuple(sorted(t[1], key=_key)))
        return t
    if k == 'if' and t[1][0] != 'const':
        a2, b2 = _assume(t[2], t[1], True), _assume(t[3], t[1], False)
        if (a2, b2) != (t[2], t[3]):
            return canon(('if', t[1], a2, b2))
    if k == 'if' and t[1][0] == 'const':
        return t[2] if t[1][1] else t[3]
    if k == 'if':
        ch = _reorder_exclusive_chain(t)
        if ch is not None:
            return ch
        c = t[1]
        if c[0] == 'not':
            return ('if', c[1], t[3], t[2])
        if c[0] == 'or' and all(p_[0] in ('cmp', 'ge0', 'not') for p_ in c[1]):
            # De Morgan: a disjunctive test is the conjunction of the negations with the branches swapped
            return canon(('if', ('and', tuple(canon(_negate_bool(p_)) for p_ in c[1])), t[3], t[2]))
        if c[0] == 'cmp' and c[1] in ('NotEq', 'IsNot', 'NotIn'):
            return ('if', ('cmp', {'NotEq': 'Eq', 'IsNot': 'Is', 'NotIn': 'In'}[c[1]], c[2], c[3]), t[3], t[2])
        if c[0] == 'ge0' and _ge0_negative_polarity(c):
            return ('if', _negate_bool(c), t[3], t[2])
        return t
    if k == 'call' and t[1] in (G('min'), G('max')) and len(t[2]) == 2 and not t[3]:
        o = _ordered(t[2][0], t[2][1])
        if o is not None:
            lo, hi = (t[2][0], t[2][1]) if o > 0 else (t[2][1], t[2][0])
            return lo if t[1] == G('min') else hi
        return ('call', t[1], tuple(sorted(t[2], key=_key)), ())
    if k == 'call':
        # keyword arguments in canonical order
        if t[3]:
            return ('call', t[1], t[2], tuple(sorted(t[3], key=lambda kv: kv[0])))
        return t
    if k == 'dict':
        return t
    return t


def _dt_safe(x):
    """total and free of effects whatever the values are: names, constants, x.__class__, displays, identity / equality /
    membership comparisons, boolean combinations, issubclass / isinstance / type, conditional expressions of such"""
    if not is_node(x):
        return False
    k = x[0]
    if k in ('var', 'const', 'glob', 'bv'):
        return True
    if k == 'attr':
        # only what every object has: x.__class__ (x.a can raise for the wrong x, so a test on it is not free to move)
        return x[2] == '__class__' and _dt_safe(x[1])
    if k in ('tuple', 'list'):
        return all(_dt_safe(y) for y in x[1])
    if k == 'cmp':
        return x[1] in ('Is', 'IsNot', 'Eq', 'NotEq') and _dt_safe(x[2]) and _dt_safe(x[3])
    if k in ('and', 'or'):
        return all(_dt_safe(y) for y in x[1])
    if k == 'not':
        return _dt_safe(x[1])
    if k == 'if':
        return _dt_safe(x[1]) and _dt_safe(x[2]) and _dt_safe(x[3])
    if k == 'call' and x[1] in (G('issubclass'), G('isinstance'), G('type')) and not x[3]:
        return all(_dt_safe(y) for y in x[2])
    return False


def _dt_atom(c):
    """(atom in positive form, negated?) of a safe condition that is not a boolean combination"""
    if c[0] == 'cmp' and c[1] in ('IsNot', 'NotEq', 'NotIn'):
        return ('cmp', {'IsNot': 'Is', 'NotEq': 'Eq', 'NotIn': 'In'}[c[1]], c[2], c[3]), True
    return c, False


def _dt_eval(c, val, atoms):
    """truth of a safe condition under a valuation of its atoms (val None: only collect the atoms)"""
    if c[0] == 'const':
        return bool(c[1])
    if c[0] == 'not':
        return not _dt_eval(c[1], val, atoms)
    if c[0] in ('and', 'or'):
        rs = [_dt_eval(x, val, atoms) for x in c[1]]
        return all(rs) if c[0] == 'and' else any(rs)
    if c[0] == 'cmp' and c[1] in ('Eq', 'NotEq') and all(y[0] in ('and', 'or', 'not', 'cmp') for y in (c[2], c[3])):
        # equality of two truth values
        r = _dt_eval(c[2], val, atoms) == _dt_eval(c[3], val, atoms)
        return r if c[1] == 'Eq' else not r
    a, neg = _dt_atom(c)
    atoms.add(a)
    if val is None:
        return False
    return val[a] != neg


def _decision_tree(t):
    """Nested conditionals whose tests are boolean combinations of total, effect-free atoms (2 to 6 of them) are rebuilt as the
    reduced decision tree over the atoms in a fixed order, with conditional expressions over the same atoms inside the leaves
    resolved per branch: every restructuring of one decision table (merged / split / swapped / re-nested tests, a test moved
    into a conditional expression) has one form. A test that is anything else is a leaf of the table."""
    atoms = set()

    def scan(x):
        if x[0] == 'if' and _dt_safe(x[1]):
            _dt_eval(x[1], None, atoms)
            scan(x[2])
            scan(x[3])
    if t[0] != 'if' or not _dt_safe(t[1]):
        return None
    scan(t)
    if not 2 <= len(atoms) <= 6:
        return None
    order = sorted(atoms, key=_key)

    def spec(x, val):
        """the term under the valuation: decided conditionals are resolved"""
        def f(y):
            if y[0] == 'if' and _dt_safe(y[1]):
                local = set()
                _dt_eval(y[1], None, local)
                if local <= atoms:
                    return spec(y[2] if _dt_eval(y[1], val, set()) else y[3], val)
            return None
        return replace(x, f)

    def feasible(val):
        """cheap contradictions between atoms: e == c and e == c' (c != c'); e is None and e == c / issubclass(e.__class__, ..)"""
        eqs, none, typed = {}, set(), set()
        for a in order:
            if not val[a]:
                continue
            if a[0] == 'cmp' and a[1] in ('Eq', 'Is') and (a[2][0] in ('const', 'tuple')) != (a[3][0] in ('const', 'tuple')):
                e_, k_ = (a[3], a[2]) if a[2][0] in ('const', 'tuple') else (a[2], a[3])
                if k_ == NONE:
                    none.add(e_)
                else:
                    if e_ in eqs and eqs[e_] != k_:
                        return False
                    eqs[e_] = k_
            if a[0] == 'call' and a[1] in (G('issubclass'), G('isinstance')) and a[2]:
                x = a[2][0]
                typed.add(x[1] if (x[0] == 'attr' and x[2] == '__class__') else x)
        return not (none & set(eqs)) and not (none & typed)

    def build(i, val):
        if i == len(order):
            return norm(spec(t, val)) if feasible(val) else None
        hi = build(i + 1, dict(val) | {order[i]: True})
        lo = build(i + 1, dict(val) | {order[i]: False})
        if hi is None:
            return lo
        if lo is None or hi == lo:
            return hi
        return ('if', order[i], hi, lo)
    return build(0, {})


def dtree(t):
    """statement-level decision tables of a (normalised, named) function term in their reduced ordered form"""
    if not is_node(t):
        return t
    if t[0] == 'if':
        r = _decision_tree(t)
        if r is not None:
            return r
        return ('if', t[1], dtree(t[2]), dtree(t[3]))
    if t[0] in ('tuple', 'try', 'after_try', 'handler'):
        return mapt(dtree, t)
    return t


def _assume(t, cond, value):
    """rewrite t under the knowledge that `cond` is `value` (both canonical): occurrences fold; d.get(k) is d[k] where k in d"""
    facts = []
    if cond[0] == 'and' and value:
        facts = [(c, True) for c in cond[1]]
    elif cond[0] == 'or' and not value:
        facts = [(c, False) for c in cond[1]]
    else:
        facts = [(cond, value)]
    # a subscript d[k] evaluated by the condition (without raising) shows that k is present in d on both branches
    evaluated = [(x[2], x[1]) for x in walk(cond) if x[0] == 'sub' and x[2][0] != 'slice']
    facts = [(c, v) for c, v in facts if c[0] in ('cmp', 'ge0', 'not')]      # only boolean-valued conditions (not truthiness of a value)
    if not facts and not evaluated:
        return t
    neg = [(_negate_bool(c), not v) for c, v in facts if c[0] in ('cmp', 'ge0') or (c[0] == 'not' and c[1][0] in ('cmp', 'ge0', 'not', 'and', 'or'))]
    known = dict(facts + neg)
    # e == c (a constant) decides e == c' for every other constant c'
    equals = {}
    for c, v in list(known.items()):
        if v and c[0] == 'cmp' and c[1] == 'Eq' and (c[2][0] == 'const') != (c[3][0] == 'const'):
            e_, k_ = (c[3], c[2]) if c[2][0] == 'const' else (c[2], c[3])
            if isinstance(k_[1], (int, str)) and not isinstance(k_[1], bool):
                equals[e_] = k_[1]
    present = [(c[2], c[3]) for c, v in known.items() if c[0] == 'cmp' and ((c[1] == 'In' and v) or (c[1] == 'NotIn' and not v))] + evaluated

    def f(x):
        if x in known and x[0] != 'const':
            return C(known[x])
        if equals and x[0] == 'cmp' and x[1] in ('Eq', 'NotEq') and (x[2][0] == 'const') != (x[3][0] == 'const'):
            e_, k_ = (x[3], x[2]) if x[2][0] == 'const' else (x[2], x[3])
            if e_ in equals and isinstance(k_[1], (int, str)) and not isinstance(k_[1], bool) and type(k_[1]) is type(equals[e_]):
                return C((equals[e_] == k_[1]) == (x[1] == 'Eq'))
        if x[0] == 'call' and x[1][0] == 'attr' and x[1][2] == 'get' and x[2] and not x[3]:
            if (x[2][0], x[1][1]) in present:
                return ('sub', x[1][1], x[2][0])
        if x[0] in ('and', 'or'):
            parts = [p for p in x[1] if not (p[0] == 'const' and bool(p[1]) == (x[0] == 'and'))]
            if any(p[0] == 'const' and bool(p[1]) != (x[0] == 'and') for p in parts):
                return C(x[0] == 'or')
            if len(parts) != len(x[1]):
                return C(x[0] == 'and') if not parts else (parts[0] if len(parts) == 1 else (x[0], tuple(parts)))
        if x[0] == 'not' and x[1][0] == 'const':
            return C(not x[1][1])
        if x[0] == 'if' and x[1][0] == 'const':
            return x[2] if x[1][1] else x[3]
        return None
    if not any(y in known or (y[0] == 'call' and y[1][0] == 'attr' and y[1][2] == 'get') or
               (equals and y[0] == 'cmp' and y[1] in ('Eq', 'NotEq')) for y in walk(t)):
        return t
    return replace(t, f)


def _risky_factors(p):
    """the factors of an integer polynomial whose evaluation can raise (anything but names, constants, attribute chains and
    len() of those), as a frozenset"""
    def ok(x):
        if x[0] in ('var', 'bv', 'const', 'glob'):
            return True
        if x[0] == 'attr':
            return ok(x[1])
        if _is_len(x):
            return ok(_strip_seq(x[2][0]))
        return False
    facs = [f_ for c_, mono in p[1] for f_ in mono] if p[0] == 'poly' else [p]
    return frozenset(f_ for f_ in facs if not ok(f_))


def _strip_seq(x):
    while x[0] == 'call' and x[1] in (G('list'), G('tuple')) and len(x[2]) == 1 and not x[3]:
        x = x[2][0]
    return x


def _is_len(t):
    return t[0] == 'call' and t[1] == G('len') and len(t[2]) == 1 and not t[3]


def _ge0_negative_polarity(c):
    """True if the ge0 guard should be flipped for a canonical polarity (leading non-constant coefficient negative)"""
    p = c[1]
    if p[0] == 'poly':
        for co, mono in p[1]:
            if mono != ():
                return co < 0
    return False


def _guard_on(c):
    """(scrutinee, predicate over int) for guards  e == k / e != k / p(e) >= 0 with p = ±e + k ; else None"""
    if c[0] == 'cmp' and c[1] == 'Eq' and (c[2][0] == 'const') != (c[3][0] == 'const'):
        e, k = (c[3], c[2]) if c[2][0] == 'const' else (c[2], c[3])
        if isinstance(k[1], int) and not isinstance(k[1], bool):
            return e, (lambda x, k=k[1]: x == k)
    if c[0] == 'ge0':
        p = _poly_of(c[1]) if c[1][0] in ('poly', 'const') else {(c[1],): 1}
        if p is None:
            return None
        atoms = [(m, co) for m, co in p.items() if m != ()]
        if len(atoms) == 1 and len(atoms[0][0]) == 1 and atoms[0][1] in (1, -1):
            k0 = p.get((), 0)
            co = atoms[0][1]
            return atoms[0][0][0], (lambda x, co=co, k0=k0: co * x + k0 >= 0)
    return None


def _reorder_exclusive_chain(t):
    """if c1: A1 elif c2: A2 ... else D  with pairwise exclusive guards on one integer scrutinee: canonical branch order"""
    chain = []
    cur = t
    scrut = None

    def same_scrut_if(x):
        if x[0] != 'if':
            return False
        gx = _guard_on(x[1])
        return gx is not None and (scrut is None or gx[0] == scrut)
    while cur[0] == 'if':
        g = _guard_on(cur[1])
        if g is None or (scrut is not None and g[0] != scrut):
            break
        scrut = g[0]
        if same_scrut_if(cur[2]) and not same_scrut_if(cur[3]):
            # flipped link: the chain continues in the then-branch
            chain.append((_negate_bool(cur[1]), (lambda x, pr=g[1]: not pr(x)), cur[3]))
            cur = cur[2]
        else:
            chain.append((cur[1], g[1], cur[2]))
            cur = cur[3]
    if len(chain) < 2:
        return None
    default = cur
    consts = [x[1] for c, _, _ in chain for x in walk(c) if x[0] == 'const' and isinstance(x[1], int)]
    lo, hi = min(consts + [0]) - 3, max(consts + [0]) + 3
    if _is_len(scrut):
        # a length is non-negative: canonical piecewise form  if len <= h1: b1 elif len <= h2: b2 ... else b_last
        pieces = []
        for x in range(0, hi + 1):
            br = next((a for _, pr, a in chain if pr(x)), default)
            if pieces and pieces[-1][1] == br:
                pieces[-1] = (x, br)
            else:
                pieces.append((x, br))
        if len({_key(b) for _, b in pieces}) == len(pieces) or True:
            out = pieces[-1][1]
            for hi_x, br in reversed(pieces[:-1]):
                out = ('if', ('ge0', _mk_poly({(scrut,): -1, (): hi_x})), br, out)
            return out if out != t else None
    for x in range(lo, hi + 1):
        if sum(1 for _, pr, _ in chain if pr(x)) > 1:
            return None                      # not mutually exclusive
    ordered = sorted(chain, key=lambda e: _key(e[0]))
    if [e[0] for e in ordered] == [e[0] for e in chain] and all(c2 == t2 for (c2, _, _), t2 in zip(chain, _chain_guards(t, len(chain)))):
        return None
    out = default
    for c, _, a in reversed(ordered):
        out = ('if', c, a, out)
    return out


def _chain_guards(t, n):
    out = []
    cur = t
    while cur[0] == 'if' and len(out) < n:
        out.append(cur[1])
        cur = cur[3]
    return out


def _is_boolean(t):
    return t[0] in ('cmp', 'ge0', 'not') or (t[0] == 'const' and isinstance(t[1], bool))


def _negate_bool(t):
    if t[0] == 'cmp' and t[1] in ('Eq', 'NotEq', 'In', 'NotIn', 'Is', 'IsNot'):
        flip = {'Eq': 'NotEq', 'NotEq': 'Eq', 'In': 'NotIn', 'NotIn': 'In', 'Is': 'IsNot', 'IsNot': 'Is'}
        return ('cmp', flip[t[1]], t[2], t[3])
    if t[0] == 'not':
        return t[1]
    if t[0] == 'ge0':
        # not (p >= 0)  ==  -p - 1 >= 0   (integers)
        p = _poly_of(t[1]) if t[1][0] in ('poly', 'const', 'binop') else {(t[1],): 1}
        return ('ge0', _mk_poly(_padd({(): -1}, p, -1)))
    return ('not', t)


def _swap_lu(t):
    def f(x):
        if x[0] == 'attr' and x[2] in ('lower', 'upper'):
            return ('attr', x[1], 'upper' if x[2] == 'lower' else 'lower')
        return None
    return replace(t, f)


def _attrs_in(t):
    return {x[2] for x in walk(t) if x[0] == 'attr' and x[2] in ('lower', 'upper')}


def _ordered(a, b):
    """+1 if a <= b for all inputs, -1 if a >= b, None if unknown.
    Axiom (Bounds invariant lower <= upper, summed):  sum_{x in X} f(x).lower <= sum_{x in X} f(x).upper."""
    pa = _poly_of(a) or {(a,): 1}
    pb = _poly_of(b) or {(b,): 1}
    d = _padd(pb, pa, -1)
    if len(d) != 2:
        return None
    (m1, c1), (m2, c2) = d.items()
    if len(m1) != 1 or len(m2) != 1 or c1 != -c2:
        return None
    x, y = m1[0], m2[0]
    if not (_is_sum(x) and _is_sum(y)) and not (x[0] == 'attr' and y[0] == 'attr'):
        return None
    if _swap_lu(x) != y:
        return None
    ax, ay = _attrs_in(x), _attrs_in(y)
    if ax == {'upper'} and ay == {'lower'}:
        c = c1
    elif ax == {'lower'} and ay == {'upper'}:
        c = c2
    else:
        return None
    # b - a = c * (S_upper - S_lower)
    return 1 if c > 0 else -1


def canonical(t):
    return canon(debruijn(norm(t)))


# ------------------------------------------------------------------------------------------------
# printing
# ------------------------------------------------------------------------------------------------
def show(t, names=None):
    names = names or []
    if not isinstance(t, tuple):
        return repr(t)
    if not is_node(t):
        return '(' + ', '.join(show(x, names) for x in t) + ')'
    k = t[0]
    s = lambda x: show(x, names)
    if k == 'const': return repr(t[1])
    if k == 'var': return t[1]
    if k == 'bv':
        try:
            return names[-(t[1] + 1)][t[2]]
        except Exception:
            return f'bv{t[1]}.{t[2]}'
    if k == 'glob': return t[1]
    if k == 'attr': return f"{s(t[1])}.{t[2]}"
    if k == 'lam':
        if isinstance(t[1], int):
            ps = [f'v{len(names) + 1}{"abcdefgh"[i] if t[1] > 1 else ""}' for i in range(t[1])]
            return f"(λ{','.join(ps)}. {show(t[2], names + [ps])})"
        return f"(λ{','.join(t[1])}. {s(t[2])})"
    if k == 'call':
        a = [s(x) for x in t[2]] + [f"{n}={s(v)}" for n, v in t[3]]
        return f"{s(t[1])}({', '.join(a)})"
    if k == 'star': return '*' + s(t[1])
    if k == 'dstar': return '**' + s(t[1])
    if k == 'if': return f"({s(t[2])} if {s(t[1])} else {s(t[3])})"
    if k in ('tuple', 'list', 'set'):
        o, c = {'tuple': '()', 'list': '[]', 'set': '{}'}[k]
        return o + ', '.join(s(x) for x in t[1]) + c
    if k == 'dict': return '{' + ', '.join(s(x) for x in t[1]) + '}'
    if k == 'kw': return f"{s(t[1])}: {s(t[2])}"
    if k == 'binop': return f"({s(t[2])} {t[1]} {s(t[3])})"
    if k == 'cmp': return f"({s(t[2])} {t[1]} {s(t[3])})"
    if k == 'not': return f"not {s(t[1])}"
    if k == 'inv': return '~' + s(t[1])
    if k in ('and', 'or'): return '(' + f' {k} '.join(s(x) for x in t[1]) + ')'
    if k == 'sub': return f"{s(t[1])}[{s(t[2])}]"
    if k == 'slice': return ':'.join('' if x == NONE else s(x) for x in t[1:])
    if k == 'map': return f"[{s(t[1])} @ {s(t[2])}]"
    if k == 'filter': return f"[{s(t[2])} | {s(t[1])}]"
    if k in ('concat', 'zip', 'strcat'): return f"{k}(" + ', '.join(s(x) for x in t[1]) + ')'
    if k == 'flat': return f"flat({s(t[1])})"
    if k == 'try': return f"try({s(t[1])} except " + ' | '.join(s(h) for h in t[2]) + ')'
    if k == 'handler': return f"{s(t[1])}: {s(t[2])}"
    if k == 'fstr': return 'f"' + '+'.join(s(x) for x in t[1]) + '"'
    if k == 'ret': return f"RETURN {s(t[1])}" + (f" EFFECTS[{'; '.join(s(e) for e in t[2])}]" if t[2] else '')
    if k == 'raise': return f"RAISE {s(t[1])}" + (f" EFFECTS[{'; '.join(s(e) for e in t[2])}]" if t[2] else '')
    if k == 'after_try': return f"AFTER-TRY({s(t[1])})"
    if k == 'upd': return f"{s(t[1])}{{.{t[2]}:={s(t[3])}}}"
    if k == 'setitem': return f"{s(t[1])}{{[{s(t[2])}]:={s(t[3])}}}"
    if k == 'delitem': return f"{s(t[1])}{{del [{s(t[2])}]}}"
    if k == 'setattr': return f"SETATTR {s(t[1])}.{t[2]} := {s(t[3])}"
    if k == 'expr': return f"DO {s(t[1])}"
    if k == 'poly':
        parts = []
        for c, m in t[1]:
            ms = '*'.join(s(x) for x in m)
            parts.append(f"{c}" if not m else (ms if c == 1 else f"{c}*{ms}"))
        return '(' + ' + '.join(parts) + ')'
    if k == 'ge0': return f"[{s(t[1])} >= 0]"
    if k == 'seq': return '(' + '; '.join(s(x) for x in t[1]) + ' ;; ' + s(t[2]) + ')'
    if k == 'phi': return f"φ{t[1]}.{t[2]}"
    if k == 'loopout': return f"loop{t[1]}.{t[2]}"
    if k == 'loop': return f"LOOP{s(t[1])} {s(t[2])} {s(t[3])} init={s(t[4])} body=({s(t[5])})"
    if k == 'blk': return '{' + ', '.join(s(x) for x in t[1]) + '}'
    if k in ('break', 'continue'): return f"{k.upper()} {s(t[1])}" + (f" EFFECTS[{'; '.join(s(e) for e in t[2])}]" if t[2] else '')
    if k == 'opaque': return f"<opaque {t[1]}>"
    return k + '(' + ', '.join(s(x) if isinstance(x, tuple) else repr(x) for x in t[1:]) + ')'


# ------------------------------------------------------------------------------------------------
# structural diff
# ------------------------------------------------------------------------------------------------
def diff(a, b, path='', out=None, limit=6):
    """List of (path, a_sub, b_sub) at the outermost positions where a and b differ."""
    out = [] if out is None else out
    if a == b or len(out) >= limit:
        return out
    if not (is_node(a) and is_node(b)) or a[0] != b[0] or len(a) != len(b) or a[0] in ('const', 'var', 'glob', 'bv', 'opaque'):
        out.append((path, a, b))
        return out
    # same kind: compare components
    k = a[0]
    sub = []
    same_shape = True
    for i, (x, y) in enumerate(zip(a[1:], b[1:])):
        if x == y:
            continue
        if is_node(x) and is_node(y):
            sub.append((f"{path}/{k}.{i}", x, y))
        elif isinstance(x, tuple) and isinstance(y, tuple) and not is_node(x) and not is_node(y) and len(x) == len(y):
            for j, (p, q) in enumerate(zip(x, y)):
                if p != q:
                    if is_node(p) and is_node(q):
                        sub.append((f"{path}/{k}.{i}[{j}]", p, q))
                    elif isinstance(p, tuple) and isinstance(q, tuple) and len(p) == len(q) == 2 and p[0] == q[0] \
                            and is_node(p[1]) and is_node(q[1]):
                        sub.append((f"{path}/{k}.{i}[{p[0]}]", p[1], q[1]))
                    else:
                        same_shape = False
        else:
            same_shape = False
    if not same_shape:
        out.append((path, a, b))
        return out
    for p, x, y in sub:
        diff(x, y, p, out, limit)
    return out


def has_opaque(t):
    return [x for x in walk(t) if x[0] == 'opaque']


# ------------------------------------------------------------------------------------------------
# matching a code term against a reference with holes:  __hole_<name>__(...)  matches any sub-term
# ------------------------------------------------------------------------------------------------
def is_hole(t):
    return t[0] == 'call' and t[1][0] == 'glob' and '__hole_' in t[1][1]


def hole_name(t):
    return t[1][1].split('__hole_')[1].rstrip('_')


def has_holes(t):
    return any(is_hole(x) for x in walk(t))


def fill_holes(code, ref, binds):
    """Return ref with every hole replaced by the code sub-term found at the same position (where alignable)."""
    if is_node(ref) and is_hole(ref):
        binds.setdefault(hole_name(ref), []).append(code)
        return code
    if not (is_node(code) and is_node(ref)) or code[0] != ref[0] or len(code) != len(ref) or ref[0] in ('const', 'var', 'glob', 'bv', 'opaque'):
        return ref

    def g(x, y):
        if is_node(y):
            return fill_holes(x, y, binds) if is_node(x) else y
        if isinstance(y, tuple) and isinstance(x, tuple) and len(x) == len(y):
            return tuple(g(a, b) for a, b in zip(x, y))
        return y
    return (ref[0],) + tuple(g(x, y) for x, y in zip(code[1:], ref[1:]))
