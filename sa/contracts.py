"""E2 - contract equivalence: code ≡ reference by canonical form.

References live in /verif/sa/ref/*.py. They are plain Python *source* that is never imported or
executed: it is parsed with `ast` and pushed through exactly the same lowering / normalisation /
canonicalisation as the repository code. Each reference module starts with a literal

    TARGET = "puan.logic.plog"            # module whose functions it specifies
    CONTRACTS = { "AtLeast._equation_mm": {"props": [...], "split": "sign", "why": "..."} , ...}
"""
import ast
import hashlib
import os

from .frontend import ModuleInfo, FuncInfo, ClassInfo, AnalysisError, dotted
from . import terms as T

REF_DIR = os.path.join(os.path.dirname(os.path.abspath(__file__)), "ref")


class Result:
    def __init__(self, status, detail="", key="", diffs=(), code="", ref=""):
        self.status = status      # ok | violation | inconclusive
        self.detail = detail
        self.key = key
        self.diffs = list(diffs)
        self.code = code
        self.ref = ref


class RefModule:
    def __init__(self, program, path):
        self.program = program
        self.path = path
        with open(path, encoding="utf8") as f:
            src = f.read()
        tree = ast.parse(src, filename=path)
        self.target = None
        self.contracts = {}
        for st in tree.body:
            if isinstance(st, ast.Assign) and len(st.targets) == 1 and isinstance(st.targets[0], ast.Name):
                if st.targets[0].id == "TARGET":
                    self.target = ast.literal_eval(st.value)
                elif st.targets[0].id == "CONTRACTS":
                    self.contracts = ast.literal_eval(st.value)
        if self.target is None:
            raise AnalysisError(f"reference file {path} has no TARGET")
        if self.target not in program.modules:
            raise AnalysisError(f"anchor vanished: module {self.target}")
        real = program.modules[self.target]
        # a ModuleInfo that carries the reference's own definitions, falling back on the real module's names
        m = ModuleInfo.__new__(ModuleInfo)
        m.name, m.path, m.relpath, m.src, m.sha256, m.tree = self.target, path, os.path.relpath(path, os.path.dirname(REF_DIR)), src, hashlib.sha256(src.encode()).hexdigest(), tree
        m.imports, m.classes, m.functions, m.assigns = dict(real.imports), dict(real.classes), dict(real.functions), dict(real.assigns)
        self.funcs = {}
        self.class_bases = {}      # class name -> [qualified base names]  (as declared by the reference)
        self.class_fields = {}     # class name -> [annotated field names] (dataclass fields)
        for st in tree.body:
            if isinstance(st, ast.Import):
                for a in st.names:
                    m.imports[a.asname or a.name.split(".")[0]] = a.name if a.asname else a.name.split(".")[0]
            elif isinstance(st, ast.ImportFrom):
                for a in st.names:
                    m.imports[a.asname or a.name] = (st.module + "." + a.name) if st.module else a.name
            elif isinstance(st, ast.ClassDef):
                self.class_bases[st.name] = [program.qualify(m, dotted(b)) for b in st.bases if dotted(b)]
                self.class_fields[st.name] = [b.target.id for b in st.body if isinstance(b, ast.AnnAssign) and isinstance(b.target, ast.Name)]
                real_cls = program.classes.get(self.target + "." + st.name)
                for b in st.body:
                    if isinstance(b, ast.FunctionDef):
                        fi = FuncInfo(f"{self.target}.{st.name}.{b.name}", b, m, real_cls)
                        self.funcs[f"{st.name}.{b.name}"] = fi
            elif isinstance(st, ast.FunctionDef):
                self.funcs[st.name] = FuncInfo(f"{self.target}.{st.name}", st, m, None)
        self.module = m


def _is_unspecified(t):
    return t[0] == 'ret' and T.is_node(t[1]) and t[1][0] == 'glob' and t[1][1].endswith('__unspecified__')


def _mask_unspecified(c, r):
    """where the reference says `return __unspecified__` (inputs outside what the property quantifies over) any way the code
    leaves the function there (a value, None, an exception) is accepted"""
    if not T.is_node(r):
        if isinstance(r, tuple) and isinstance(c, tuple) and len(c) == len(r):
            return tuple(_mask_unspecified(x, y) for x, y in zip(c, r))
        return c
    if _is_unspecified(r):
        return r if T.is_node(c) and c[0] in ('ret', 'raise') else c
    if T.is_node(c) and c[0] == r[0] and len(c) == len(r):
        return tuple(_mask_unspecified(x, y) for x, y in zip(c, r))
    return c


class Contracts:
    def __init__(self, program):
        self.program = program
        self.refs = {}       # qualname -> (RefModule, FuncInfo, meta)
        self.ref_modules = []
        for fn in sorted(os.listdir(REF_DIR)):
            if fn.endswith(".py") and not fn.startswith("_"):
                rm = RefModule(program, os.path.join(REF_DIR, fn))
                self.ref_modules.append(rm)
                for short, fi in rm.funcs.items():
                    meta = rm.contracts.get(short)
                    if meta is None:
                        continue
                    variant = meta.get("variant")
                    self.refs[(rm.target + "." + (meta.get("target") or short), variant)] = (rm, fi, meta)
        T.CONTRACTED.clear()
        T.CONTRACTED.update(q for q, _ in self.refs)

    def for_property(self, prop):
        return sorted((q, v) for (q, v), (rm, fi, meta) in self.refs.items() if prop in meta.get("props", []))

    def meta(self, qualname, variant=None):
        return self.refs[(qualname, variant)][2]

    # ------------------------------------------------------------------
    def terms_for(self, qualname, variant=None, pid=None):
        """[(case-name, code canonical term, ref canonical term)]"""
        rm, rfi, meta = self.refs[(qualname, variant)]
        cfi = self.program.func(qualname)
        cl = T.FuncLower(self.program, cfi)
        rl = T.FuncLower(self.program, rfi, param_names=None)
        extra_defaults = {}
        if len(cl.params) > len(rl.params):
            # additional trailing parameters that have defaults: existing callers do not pass them, so the behaviour the
            # property speaks about is the body with those parameters at their defaults
            dflt = dict(cl.defaults())
            extra = cl.params[len(rl.params):]
            a = cfi.node.args
            kwonly = {x.arg for x in a.kwonlyargs}
            if all(p in dflt for p in extra) and not a.kwarg and (not a.vararg or all(p in kwonly for p in extra)):
                extra_defaults = {p: dflt[p] for p in extra}
            else:
                raise ParamMismatch(f"{qualname}: code has parameters {cl.params}, reference {rl.params}")
        elif len(cl.params) != len(rl.params):
            raise ParamMismatch(f"{qualname}: code has parameters {cl.params}, reference {rl.params}")
        rl.param_names = cl.params[:len(rl.params)]
        cterm, rterm = cl.term(), rl.term()
        if extra_defaults:
            cterm = T.subst(cterm, extra_defaults)
        if pid not in (meta.get("raise_class") or ()):
            # which exception class a refusal uses is not part of any property except where a contract says so
            # (`raise_class`): `raise Exception(..)` -> `raise ValueError(..)` is not a deviation
            def anyexc(t):
                if t[0] == 'raise' and len(t) == 3 and T.is_node(t[1]) and (
                        t[1][0] == 'glob' or t[1] == T.C('reraise') or
                        (t[1][0] == 'call' and T.is_node(t[1][1]) and t[1][1][0] == 'glob')):
                    return ('raise', T.G('Exception'), t[2])
                return None
            cterm, rterm = T.replace(cterm, anyexc), T.replace(rterm, anyexc)
        if meta.get("ignore_stores") and cl.params:
            # a store that is itself the subject of another property's finding (C09: assume() writes self.variable) is not part
            # of this contract: code with and without it is accepted here, the purity check reports it
            obj0_, names_ = T.V(cl.params[0]), set(meta["ignore_stores"])

            def nostore(t):
                if t[0] in ('ret', 'raise') and len(t) == 3:
                    return (t[0], t[1], tuple(e for e in t[2] if not (e[0] == 'setattr' and e[1] == obj0_ and e[2] in names_)))
                return None
            cterm, rterm = T.replace(cterm, nostore), T.replace(rterm, nostore)
        if meta.get("observe") == "emptiness":
            # the properties only speak about whether the returned list is empty (errors(): "returns nothing")
            def ne(t):
                if t[0] == 'ret' and len(t) == 3:
                    return ('ret', T.call(T.G('__nonempty__'), [t[1]]), t[2])
                return None
            cterm, rterm = T.replace(cterm, ne), T.replace(rterm, ne)
        aspects = (meta.get("attrs_for") or {}).get(pid) if pid else None
        if aspects is not None and cl.params:
            # this property depends only on some attributes the constructor establishes
            obj0 = T.V(cl.params[0])

            def only(t):
                if t[0] in ('ret', 'raise') and len(t) == 3:
                    return (t[0], t[1], tuple(e for e in t[2] if not (e[0] == 'setattr' and e[1] == obj0 and e[2] not in aspects)))
                return None
            cterm, rterm = T.replace(cterm, only), T.replace(rterm, only)
        if cfi.name in ("__init__", "__new__"):
            # a constructor may initialise additional attributes the specification does not mention (they are judged where they
            # are read): stores to attributes of the object under construction that the reference never assigns are ignored
            obj = T.V(cl.params[0]) if cl.params else None
            ref_attrs = {x[2] for x in T.walk(rterm) if x[0] == 'setattr' and x[1] == obj} | \
                        {x[2] for x in T.walk(rterm) if x[0] == 'upd'}
            # ... unless the new attribute shadows a method / property of the class (that changes behaviour)
            if cfi.cls is not None:
                for c in self.program.mro(cfi.cls) + self.program.subclasses(cfi.cls):
                    ref_attrs |= set(c.methods) | set(c.class_attrs)
            extra = set()

            def strip(t):
                if t[0] in ('ret', 'raise', 'break', 'continue') and len(t) == 3:
                    keep = tuple(e for e in t[2] if not (e[0] == 'setattr' and e[1] == obj and e[2] not in ref_attrs))
                    extra.update(e[2] for e in t[2] if e[0] == 'setattr' and e[1] == obj and e[2] not in ref_attrs)
                    return (t[0], t[1], keep)
                return None
            if obj is not None and ref_attrs:
                cterm = T.replace(cterm, strip)
            self.last_extra_attrs = sorted(extra)
        cdef = ('dict', tuple(('kw', T.C(k), v) for k, v in cl.defaults() if k not in extra_defaults))
        cd = [kv for kv in cl.defaults() if kv[0] not in extra_defaults]
        rdef = ('dict', tuple(('kw', T.C(k2), v) for (k, v), k2 in zip(rl.defaults(), [k for k, _ in cd])))
        if len(cd) != len(rl.defaults()):
            rdef = ('dict', tuple(('kw', T.C(k), v) for k, v in rl.defaults()))
        decs = lambda fi: ('list', tuple(T.G(d or '?') for d in fi.decorators))
        cfull = ('tuple', (decs(cfi), cdef, cterm))
        rfull = ('tuple', (decs(rfi), rdef, rterm))
        split = meta.get("split")
        cases = [("", {})]
        if split:
            cases = [(f"{split}=+1", {split: 1}), (f"{split}=-1", {split: -1})]
        out = []
        # boolean case expressions (source text over the parameter names): split True / False
        bexprs = []
        for src in meta.get("cases", []):
            lw = T.Lower(T.Scope(self.program, cfi.module, cfi.cls, cfi), set(cl.params))
            bexprs.append((src, T.norm(lw.e(ast.parse(src, mode="eval").body))))
        # the domain the property quantifies over (source text over the parameter names), assumed to hold: a guard for inputs
        # outside of it (which the reference leaves unspecified) folds away
        dexprs = []
        for src in meta.get("domain", []):
            lw = T.Lower(T.Scope(self.program, cfi.module, cfi.cls, cfi), set(cl.params))
            dexprs.append((src, T.norm(lw.e(ast.parse(src, mode="eval").body))))
        for name, sub in cases:
            def rep(t, sub=sub):
                if t[0] == 'attr' and t[2] in sub:
                    return T.C(sub[t[2]])
                return None
            c0 = T.dtree(T.norm(T.replace(cfull, rep) if sub else cfull))
            r0 = T.dtree(T.norm(T.replace(rfull, rep) if sub else rfull))
            if not bexprs and not dexprs:
                out.append((name, T.canon(T.debruijn(c0)), T.canon(T.debruijn(r0))))
                continue
            import itertools as _it
            for vals in _it.product([True, False], repeat=len(bexprs)):
                facts = list(zip(bexprs, vals)) + [(d, True) for d in dexprs]
                def rep2(t, facts=facts):
                    for (src, e), v in facts:
                        if t == e:
                            return T.C(v)
                    return None
                nm = name + " " + ", ".join(f"[{src}]={v}" for (src, _), v in zip(bexprs, vals))
                def under(t, facts=facts):
                    # the case assumption also decides what follows from it (x == 'bool' makes x == 'int' false)
                    t = T.canonical(T.replace(t, rep2))
                    for (src, e), v in facts:
                        t = T._assume(t, T.canonical(e), v)
                    return T.canon(t)
                out.append((nm.strip(), under(c0), under(r0)))
        return out, cfi, rfi, meta

    def check(self, qualname, variant=None, pid=None):
        try:
            cases, cfi, rfi, meta = self.terms_for(qualname, variant, pid)
        except ParamMismatch as e:
            return Result("inconclusive", str(e), key=f"E2.equiv:{qualname}:params")
        alldiffs = []
        inconclusive = []
        self.last_binds = {}
        for name, c, r in cases:
            if T.has_holes(r):
                binds = {}
                r = T.fill_holes(c, r, binds)
                for k, v in binds.items():
                    self.last_binds.setdefault(k, []).extend(v)
            if T.contains(r, _is_unspecified):
                c = _mask_unspecified(c, r)
            if c == r:
                continue
            ops = T.has_opaque(c)
            ds = T.diff(c, r)
            if ops:
                inconclusive.append((name, ops))
            alldiffs.append((name, ds, c, r))
        if not alldiffs:
            return Result("ok", code=T.show(cases[0][1]), ref=T.show(cases[0][2]))
        dig = hashlib.sha256(repr([c for _, _, c, _ in alldiffs]).encode()).hexdigest()[:12]
        lines = []
        for name, ds, c, r in alldiffs:
            for p, a, b in ds[:4]:
                ln = _locate(cfi, a)
                lines.append(f"[{name or 'all'}] at {p or '/'}{' (≈ line ' + str(ln) + ')' if ln else ''}: code `{T.show(a)[:300]}` ≠ reference `{T.show(b)[:300]}`")
        key = f"E2.equiv:{qualname}{'/' + variant if variant else ''}:{dig}"
        if inconclusive:
            return Result("inconclusive", "construct outside the decidable fragment: " +
                          "; ".join(o[1][:80] for _, ops in inconclusive for o in ops[:2]) + " | " + " | ".join(lines),
                          key=key, diffs=lines)
        return Result("violation", " | ".join(lines), key=key, diffs=lines,
                      code=T.show(alldiffs[0][2]), ref=T.show(alldiffs[0][3]))


class ParamMismatch(Exception):
    pass


def _locate(fi, sub):
    """best-effort source line of the construct a deviating sub-term came from (token overlap with the function's AST nodes)"""
    import re
    want = set(re.findall(r"[A-Za-z_][A-Za-z_0-9]*|-?\d+", T.show(sub))) - {"bv0", "v1", "v2", "lam"}
    if len(want) < 3 or len(T.show(sub)) > 4000:
        return None
    best, score = None, 0.0
    for n in ast.walk(fi.node):
        if not isinstance(n, (ast.expr, ast.stmt)) or not hasattr(n, "lineno") or n is fi.node:
            continue
        try:
            toks = set(re.findall(r"[A-Za-z_][A-Za-z_0-9]*|-?\d+", ast.unparse(n)))
        except Exception:
            continue
        if not toks:
            continue
        j = len(want & toks) / len(want | toks)
        if j > score:
            best, score = n, j
    return best.lineno if best is not None and score >= 0.3 else None
