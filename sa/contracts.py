"""E2 - contract equivalence: code ≡ reference by canonical form.

References live in /verif/sa/ref/*.py. They are plain Python *source* that is never imported or
executed: it is parsed with `ast` and pushed through exactly the same lowering / normalisation /
canonicalisation as the repository code. Each reference module starts with a literal

    TARGET = "puan.logic.plog"            # module whose functions it specifies
    CONTRACTS = { "AtLeast._equation_mm": {"props": [...], "split": "sign", "why": "..."} , ...}
"""
import ast
import hashlib
import os

from .frontend import ModuleInfo, FuncInfo, ClassInfo, AnalysisError, dotted
from . import terms as T

REF_DIR = os.path.join(os.path.dirname(os.path.abspath(__file__)), "ref")


class Result:
    def __init__(self, status, detail="", key="", diffs=(), code="", ref=""):
        self.status = status      # ok | violation | inconclusive
        self.detail = detail
        self.key = key
        self.diffs = list(diffs)
        self.code = code
        self.ref = ref


class RefModule:
    def __init__(self, program, path):
        self.program = program
        self.path = path
        with open(path, encoding="utf8") as f:
            src = f.read()
        tree = ast.parse(src, filename=path)
        self.target = None
        self.contracts = {}
        for st in tree.body:
            if isinstance(st, ast.Assign) and len(st.targets) == 1 and isinstance(st.targets[0], ast.Name):
                if st.targets[0].id == "TARGET":
                    self.target = ast.literal_eval(st.value)
                elif st.targets[0].id == "CONTRACTS":
                    self.contracts = ast.literal_eval(st.value)
        if self.target is None:
            raise AnalysisError(f"reference file {path} has no TARGET")
        if self.target not in program.modules:
            raise AnalysisError(f"anchor vanished: module {self.target}")
        real = program.modules[self.target]
        # a ModuleInfo that carries the reference's own definitions, falling back on the real module's names
        m = ModuleInfo.__new__(ModuleInfo)
        m.name, m.path, m.relpath, m.src, m.sha256, m.tree = self.target, path, os.path.relpath(path, os.path.dirname(REF_DIR)), src, hashlib.sha256(src.encode()).hexdigest(), tree
        m.imports, m.classes, m.functions, m.assigns = dict(real.imports), dict(real.classes), dict(real.functions), dict(real.assigns)
        self.funcs = {}
        self.class_bases = {}      # class name -> [qualified base names]  (as declared by the reference)
        self.class_fields = {}     # class name -> [annotated field names] (dataclass fields)
        for st in tree.body:
            if isinstance(st, ast.Import):
                for a in st.names:
                    m.imports[a.asname or a.name.split(".")[0]] = a.name if a.asname else a.name.split(".")[0]
            elif isinstance(st, ast.ImportFrom):
                for a in st.names:
                    m.imports[a.asname or a.name] = (st.module + "." + a.name) if st.module else a.name
            elif isinstance(st, ast.ClassDef):
                self.class_bases[st.name] = [program.qualify(m, dotted(b)) for b in st.bases if dotted(b)]
                self.class_fields[st.name] = [b.target.id for b in st.body if isinstance(b, ast.AnnAssign) and isinstance(b.target, ast.Name)]
                real_cls = program.classes.get(self.target + "." + st.name)
                for b in st.body:
                    if isinstance(b, ast.FunctionDef):
                        fi = FuncInfo(f"{self.target}.{st.name}.{b.name}", b, m, real_cls)
                        self.funcs[f"{st.name}.{b.name}"] = fi
            elif isinstance(st, ast.FunctionDef):
                self.funcs[st.name] = FuncInfo(f"{self.target}.{st.name}", st, m, None)
        self.module = m


_BUILTIN_SUPERS = {'bool': {'bool', 'int'}, 'int': {'int'}, 'float': {'float'}, 'str': {'str'}, 'dict': {'dict'}, 'list': {'list'},
                   'tuple': {'tuple'}, 'set': {'set'}, 'NoneType': {'NoneType'}, 'type': {'type'}}


def _decide_type_tests(program, t, e, ty):
    """rewrite the type tests on the expression `e` in t for a value of type `ty` (a builtin type name or the qualified name of a
    repository class): isinstance / issubclass(e.__class__, ..) / type(e) == / is / in (..) / e is None; tuple(e) of a tuple"""
    cls = ('attr', e, '__class__')

    def supers():
        if ty in _BUILTIN_SUPERS:
            return _BUILTIN_SUPERS[ty] | {'object'}
        ci = program.classes.get(ty)
        return ({c.qualname for c in program.mro(ci)} | set(b for c in program.mro(ci) for b in c.base_names) | {'object'}) if ci else None

    def is_sub(X):
        if X[0] == 'tuple':
            rs = [is_sub(x) for x in X[1]]
            return True if any(r is True for r in rs) else (False if all(r is False for r in rs) else None)
        if X[0] != 'glob':
            return None
        sup = supers()
        if sup is None:
            return None
        if X[1] in sup:
            return True
        known = X[1] in _BUILTIN_SUPERS or X[1] == 'object' or X[1] in program.classes or X[1].startswith('numpy.')
        if ty not in _BUILTIN_SUPERS and not all(b in program.classes or b == 'object' for b in sup):
            return None if not known or X[1] not in program.classes else None   # a repo class with external bases: undecided
        return False if known else None          # (abstract base classes such as numbers.Integral are left undecided)

    def same(X):
        return (X[1] == ty) if X[0] == 'glob' else None

    def f(x):
        if x[0] == 'call' and x[1] == T.G('issubclass') and len(x[2]) == 2 and x[2][0] == cls and not x[3]:
            r = is_sub(x[2][1])
            return None if r is None else T.C(r)
        if x[0] == 'cmp' and x[2] == cls:
            if x[1] in ('Eq', 'Is', 'NotEq', 'IsNot'):
                r = same(x[3])
                return None if r is None else T.C(r == (x[1] in ('Eq', 'Is')))
            if x[1] in ('In', 'NotIn') and x[3][0] in ('tuple', 'list', 'set') and all(y[0] == 'glob' for y in x[3][1]):
                r = any(y[1] == ty for y in x[3][1])
                return T.C(r == (x[1] == 'In'))
        if x[0] == 'cmp' and x[1] in ('Eq', 'Is', 'NotEq', 'IsNot') and T.C(None) in (x[2], x[3]) and e in (x[2], x[3]):
            return T.C((ty == 'NoneType') == (x[1] in ('Eq', 'Is')))
        if x[0] == 'call' and x[1] == T.G('tuple') and len(x[2]) == 1 and x[2][0] == e and not x[3] and ty == 'tuple':
            return e
        if x[0] == 'call' and x[1] in (T.G('numpy.asarray'), T.G('numpy.asanyarray')) and len(x[2]) == 1 and x[2][0] == e \
                and not x[3] and ty == 'numpy.ndarray':
            return e                    # an array passes through asarray / asanyarray as it is
        return None
    t = T.replace(t, f)
    if ty == 'NoneType':
        t = T.replace(t, lambda x: T.C(None) if x == e else None)       # the only value of that type
    return t


def _is_unspecified(t):
    return t[0] == 'ret' and T.is_node(t[1]) and t[1][0] == 'glob' and t[1][1].endswith('__unspecified__')


def _mask_unspecified(c, r):
    """where the reference says `return __unspecified__` (inputs outside what the property quantifies over) any way the code
    leaves the function there (a value, None, an exception) is accepted"""
    if not T.is_node(r):
        if isinstance(r, tuple) and isinstance(c, tuple) and len(c) == len(r):
            return tuple(_mask_unspecified(x, y) for x, y in zip(c, r))
        return c
    if _is_unspecified(r):
        return r if T.is_node(c) and c[0] in ('ret', 'raise') else c
    if T.is_node(c) and c[0] == r[0] and len(c) == len(r):
        return tuple(_mask_unspecified(x, y) for x, y in zip(c, r))
    return c


class Contracts:
    def __init__(self, program):
        self.program = program
        self.refs = {}       # qualname -> (RefModule, FuncInfo, meta)
        self.ref_modules = []
        for fn in sorted(os.listdir(REF_DIR)):
            if fn.endswith(".py") and not fn.startswith("_"):
                rm = RefModule(program, os.path.join(REF_DIR, fn))
                self.ref_modules.append(rm)
                for short, fi in rm.funcs.items():
                    meta = rm.contracts.get(short)
                    if meta is None:
                        continue
                    variant = meta.get("variant")
                    self.refs[(rm.target + "." + (meta.get("target") or short), variant)] = (rm, fi, meta)
        T.CONTRACTED.clear()
        T.CONTRACTED.update(q for q, _ in self.refs)

    def for_property(self, prop):
        return sorted((q, v) for (q, v), (rm, fi, meta) in self.refs.items() if prop in meta.get("props", []))

    def meta(self, qualname, variant=None):
        return self.refs[(qualname, variant)][2]

    # ------------------------------------------------------------------
    def terms_for(self, qualname, variant=None, pid=None):
        """[(case-name, code canonical term, ref canonical term)]"""
        if not T.REF_PARAMS:
            for (q_, v_), (rm_, rfi_, meta_) in self.refs.items():
                a_ = rfi_.node.args
                T.REF_PARAMS.setdefault(q_, [x.arg for x in a_.posonlyargs + a_.args + a_.kwonlyargs])
        rm, rfi, meta = self.refs[(qualname, variant)]
        cfi = self.program.func(qualname)
        cl = T.FuncLower(self.program, cfi)
        rl = T.FuncLower(self.program, rfi, param_names=None)
        extra_defaults = {}
        if len(cl.params) > len(rl.params):
            # additional trailing parameters that have defaults: existing callers do not pass them, so the behaviour the
            # property speaks about is the body with those parameters at their defaults
            dflt = dict(cl.defaults())
            extra = cl.params[len(rl.params):]
            a = cfi.node.args
            kwonly = {x.arg for x in a.kwonlyargs}
            ra = rfi.node.args
            if a.vararg and not ra.vararg and a.vararg.arg in extra and not a.kwarg and \
                    all(p in dflt or p == a.vararg.arg for p in extra) and all(p in kwonly or p == a.vararg.arg for p in extra):
                # a new *args (and keyword-only parameters with defaults after it): existing calls leave it empty
                extra_defaults = {p: (dflt[p] if p in dflt else ('tuple', ())) for p in extra}
            elif all(p in dflt for p in extra) and not a.kwarg and (not a.vararg or all(p in kwonly for p in extra)):
                extra_defaults = {p: dflt[p] for p in extra}
            else:
                raise ParamMismatch(f"{qualname}: code has parameters {cl.params}, reference {rl.params}")
        elif len(cl.params) != len(rl.params):
            raise ParamMismatch(f"{qualname}: code has parameters {cl.params}, reference {rl.params}")
        rl.param_names = cl.params[:len(rl.params)]
        cterm, rterm = cl.term(), rl.term()
        if extra_defaults:
            cterm = T.subst(cterm, extra_defaults)
        # a parameter that is only ever handed on to the function's own recursive calls influences nothing: dead on both sides,
        # its value in those calls is not compared (a deprecation of such a parameter passes a constant instead)
        selfq = T.G(cfi.qualname)

        def dead(term, p_):
            uses = sum(1 for x in T.walk(term) if x == T.V(p_))
            handed = sum(1 for x in T.walk(term) if x[0] == 'call' and x[1] == selfq and not x[2]
                         for k_, v_ in x[3] if k_ == p_ and v_ == T.V(p_))
            return uses == handed
        try:
            cn, rn = T.norm(cterm), T.norm(rterm)
            deadp = [p_ for p_ in cl.params[1:] if dead(cn, p_) and dead(rn, p_) and any(
                x[0] == 'call' and x[1] == selfq for x in T.walk(rn))]
        except Exception:
            deadp = []
        if deadp:
            def undead(t):
                if t[0] == 'call' and t[1] == selfq and not t[2]:
                    return ('call', t[1], t[2], tuple((k_, v_) for k_, v_ in t[3] if k_ not in deadp))
                return None
            cterm, rterm = T.replace(cn, undead), T.replace(rn, undead)
        if pid not in (meta.get("raise_class") or ()):
            # which exception class a refusal uses is not part of any property except where a contract says so
            # (`raise_class`): `raise Exception(..)` -> `raise ValueError(..)` is not a deviation
            def anyexc(t):
                if t[0] == 'raise' and len(t) == 3 and T.is_node(t[1]) and (
                        t[1][0] == 'glob' or t[1] == T.C('reraise') or
                        (t[1][0] == 'call' and T.is_node(t[1][1]) and t[1][1][0] == 'glob')):
                    return ('raise', T.G('Exception'), t[2])
                return None
            cterm, rterm = T.replace(cterm, anyexc), T.replace(rterm, anyexc)

            # ... and a `try` all of whose handlers do nothing but raise (exception translation: `except TypeError as e: raise
            # ValueError(..) from e`) then behaves like its body
            def untry(t):
                inbody = {e for x in T.walk(t[1]) if x[0] in ('ret', 'raise') and len(x) == 3 for e in x[2]} if t[0] == 'try' else set()
                if t[0] == 'try' and t[2] and all(h[2][0] == 'raise' and all(e in inbody for e in h[2][2]) for h in t[2]):
                    def unmark(x):
                        return x[1] if x[0] in ('after_try', 'intry', 'pretry') and len(x) == 2 else None
                    return T.replace(t[1], unmark)
                return None
            cterm, rterm = T.replace(cterm, untry), T.replace(rterm, untry)
        if meta.get("ignore_stores") and cl.params:
            # a store that is itself the subject of another property's finding (C09: assume() writes self.variable) is not part
            # of this contract: code with and without it is accepted here, the purity check reports it
            obj0_, names_ = T.V(cl.params[0]), set(meta["ignore_stores"])

            def nostore(t):
                if t[0] in ('ret', 'raise') and len(t) == 3:
                    return (t[0], t[1], tuple(e for e in t[2] if not (e[0] == 'setattr' and e[1] == obj0_ and e[2] in names_)))
                return None
            cterm, rterm = T.replace(cterm, nostore), T.replace(rterm, nostore)
        if meta.get("observe") == "emptiness":
            # the properties only speak about whether the returned list is empty (errors(): "returns nothing")
            def ne(t):
                if t[0] == 'ret' and len(t) == 3:
                    return ('ret', T.call(T.G('__nonempty__'), [t[1]]), t[2])
                return None
            cterm, rterm = T.replace(cterm, ne), T.replace(rterm, ne)
        aspects = (meta.get("attrs_for") or {}).get(pid) if pid else None
        if aspects is not None and cl.params:
            # this property depends only on some attributes the constructor establishes
            obj0 = T.V(cl.params[0])

            def only(t):
                if t[0] in ('ret', 'raise') and len(t) == 3:
                    return (t[0], t[1], tuple(e for e in t[2] if not (e[0] == 'setattr' and e[1] == obj0 and e[2] not in aspects)))
                return None
            cterm, rterm = T.replace(cterm, only), T.replace(rterm, only)
        if cfi.name in ("__init__", "__new__"):
            # a constructor may initialise additional attributes the specification does not mention (they are judged where they
            # are read): stores to attributes of the object under construction that the reference never assigns are ignored
            obj = T.V(cl.params[0]) if cl.params else None
            ref_attrs = {x[2] for x in T.walk(rterm) if x[0] == 'setattr' and x[1] == obj} | \
                        {x[2] for x in T.walk(rterm) if x[0] == 'upd'}
            # ... unless the new attribute shadows a method / property of the class (that changes behaviour)
            if cfi.cls is not None:
                for c in self.program.mro(cfi.cls) + self.program.subclasses(cfi.cls):
                    ref_attrs |= set(c.methods) | set(c.class_attrs)
            extra = set()

            def strip(t):
                if t[0] in ('ret', 'raise', 'break', 'continue') and len(t) == 3:
                    keep = tuple(e for e in t[2] if not (e[0] == 'setattr' and e[1] == obj and e[2] not in ref_attrs))
                    extra.update(e[2] for e in t[2] if e[0] == 'setattr' and e[1] == obj and e[2] not in ref_attrs)
                    return (t[0], t[1], keep)
                return None
            if obj is not None and ref_attrs:
                cterm = T.replace(cterm, strip)
            self.last_extra_attrs = sorted(extra)
        cdef = ('dict', tuple(('kw', T.C(k), v) for k, v in cl.defaults() if k not in extra_defaults))
        cd = [kv for kv in cl.defaults() if kv[0] not in extra_defaults]
        rdef = ('dict', tuple(('kw', T.C(k2), v) for (k, v), k2 in zip(rl.defaults(), [k for k, _ in cd])))
        if len(cd) != len(rl.defaults()):
            rdef = ('dict', tuple(('kw', T.C(k), v) for k, v in rl.defaults()))
        # `@staticmethod` on a function whose first parameter is not self / cls only changes what a call *on an instance* does
        # (it used to pass the instance as the first argument); calls through the class - the only ones that worked - are the same
        nostatic = bool(cl.params) and cl.params[0] not in ('self', 'cls') and bool(rl.params) and rl.param_names[0] not in ('self', 'cls')
        decs = lambda fi: ('list', tuple(T.G(d or '?') for d in fi.decorators if not (nostatic and d == 'staticmethod')))
        cfull = ('tuple', (decs(cfi), cdef, cterm))
        rfull = ('tuple', (decs(rfi), rdef, rterm))
        split = meta.get("split")
        cases = [("", {})]
        if split:
            cases = [(f"{split}=+1", {split: 1}), (f"{split}=-1", {split: -1})]
        out = []
        # boolean case expressions (source text over the parameter names): split True / False
        bexprs = []
        for src in meta.get("cases", []):
            lw = T.Lower(T.Scope(self.program, cfi.module, cfi.cls, cfi), set(cl.params))
            bexprs.append((src, T.norm(lw.e(ast.parse(src, mode="eval").body))))
        # the domain the property quantifies over (source text over the parameter names), assumed to hold: a guard for inputs
        # outside of it (which the reference leaves unspecified) folds away
        dexprs = []
        for src in meta.get("domain", []):
            lw = T.Lower(T.Scope(self.program, cfi.module, cfi.cls, cfi), set(cl.params))
            dexprs.append((src, T.norm(lw.e(ast.parse(src, mode="eval").body))))
        # declared types of parameters (or of expressions over them): the property quantifies over inputs of these types only, so
        # every type test on them is decided per type - a branch for another type (an accepted shorthand, a refusal) is outside
        texprs = []
        for src, tys in (meta.get("types") or {}).items():
            lw = T.Lower(T.Scope(self.program, cfi.module, cfi.cls, cfi), set(cl.params))
            texprs.append((src, T.norm(lw.e(ast.parse(src, mode="eval").body)), list(tys)))
        for name, sub in cases:
            def rep(t, sub=sub):
                if t[0] == 'attr' and t[2] in sub:
                    return T.C(sub[t[2]])
                return None
            c0 = T.dtree(T.norm(T.replace(cfull, rep) if sub else cfull))
            r0 = T.dtree(T.norm(T.replace(rfull, rep) if sub else rfull))
            if not bexprs and not dexprs and not texprs:
                out.append((name, T.canon(T.debruijn(c0)), T.canon(T.debruijn(r0))))
                continue
            import itertools as _it
            for tcombo in _it.product(*[[(src, e, ty) for ty in tys] for src, e, tys in texprs]):
              chosen = {src: ty for src, _, ty in tcombo}
              if any(all(chosen.get(k_) in v_ for k_, v_ in ex.items()) for ex in meta.get("exclude", [])):
                  continue            # a combination of argument types no property quantifies over
              tname = " ".join(f"[{src}: {ty}]" for src, _, ty in tcombo)
              def typed(t, tcombo=tcombo):
                  for _, e, ty in tcombo:
                      t = _decide_type_tests(self.program, t, e, ty)
                  return T.norm(t) if tcombo else t
              c0t, r0t = typed(c0), typed(r0)
              for vals in _it.product([True, False], repeat=len(bexprs)):
                facts = list(zip(bexprs, vals)) + [(d, True) for d in dexprs]
                def rep2(t, facts=facts):
                    for (src, e), v in facts:
                        if t == e:
                            return T.C(v)
                    return None
                nm = name + " " + tname + " " + ", ".join(f"[{src}]={v}" for (src, _), v in zip(bexprs, vals))
                # `x == c` assumed true for a parameter x: x is c
                eqs, clash = {}, False
                for (src, e), v in facts:
                    if v and e[0] == 'cmp' and e[1] == 'Eq' and {e[2][0], e[3][0]} == {'var', 'const'}:
                        x_, k_ = (e[2], e[3]) if e[2][0] == 'var' else (e[3], e[2])
                        clash = clash or (x_ in eqs and eqs[x_] != k_)
                        eqs[x_] = k_
                if clash:
                    continue            # contradictory case (x == 'a' and x == 'b')
                def under(t, facts=facts, eqs=eqs):
                    # the case assumption also decides what follows from it (x == 'bool' makes x == 'int' false)
                    t = T.replace(t, rep2)
                    if eqs:
                        t = T.replace(t, lambda x: eqs.get(x) if x[0] == 'var' else None)
                    t = T.canonical(t)
                    for (src, e), v in facts:
                        t = T._assume(t, T.canonical(e), v)
                    return T.canon(t)
                out.append((nm.strip(), under(c0t), under(r0t)))
        return out, cfi, rfi, meta

    def check(self, qualname, variant=None, pid=None):
        try:
            cases, cfi, rfi, meta = self.terms_for(qualname, variant, pid)
        except ParamMismatch as e:
            return Result("inconclusive", str(e), key=f"E2.equiv:{qualname}:params")
        alldiffs = []
        inconclusive = []
        self.last_binds = {}
        for name, c, r in cases:
            if T.has_holes(r):
                binds = {}
                r = T.fill_holes(c, r, binds)
                for k, v in binds.items():
                    self.last_binds.setdefault(k, []).extend(v)
            if T.contains(r, _is_unspecified):
                c = _mask_unspecified(c, r)
            if c == r:
                continue
            ops = T.has_opaque(c)
            ds = T.diff(c, r)
            if ops:
                inconclusive.append((name, ops))
            alldiffs.append((name, ds, c, r))
        if not alldiffs:
            return Result("ok", code=T.show(cases[0][1]), ref=T.show(cases[0][2]))
        dig = hashlib.sha256(repr([c for _, _, c, _ in alldiffs]).encode()).hexdigest()[:12]
        lines = []
        for name, ds, c, r in alldiffs:
            for p, a, b in ds[:4]:
                ln = _locate(cfi, a)
                lines.append(f"[{name or 'all'}] at {p or '/'}{' (≈ line ' + str(ln) + ')' if ln else ''}: code `{T.show(a)[:300]}` ≠ reference `{T.show(b)[:300]}`")
        key = f"E2.equiv:{qualname}{'/' + variant if variant else ''}:{dig}"
        if inconclusive:
            return Result("inconclusive", "construct outside the decidable fragment: " +
                          "; ".join(o[1][:80] for _, ops in inconclusive for o in ops[:2]) + " | " + " | ".join(lines),
                          key=key, diffs=lines)
        return Result("violation", " | ".join(lines), key=key, diffs=lines,
                      code=T.show(alldiffs[0][2]), ref=T.show(alldiffs[0][3]))


class ParamMismatch(Exception):
    pass


def _locate(fi, sub):
    """best-effort source line of the construct a deviating sub-term came from (token overlap with the function's AST nodes)"""
    import re
    want = set(re.findall(r"[A-Za-z_][A-Za-z_0-9]*|-?\d+", T.show(sub))) - {"bv0", "v1", "v2", "lam"}
    if len(want) < 3 or len(T.show(sub)) > 4000:
        return None
    best, score = None, 0.0
    for n in ast.walk(fi.node):
        if not isinstance(n, (ast.expr, ast.stmt)) or not hasattr(n, "lineno") or n is fi.node:
            continue
        try:
            toks = set(re.findall(r"[A-Za-z_][A-Za-z_0-9]*|-?\d+", ast.unparse(n)))
        except Exception:
            continue
        if not toks:
            continue
        j = len(want & toks) / len(want | toks)
        if j > score:
            best, score = n, j
    return best.lineno if best is not None and score >= 0.3 else None
