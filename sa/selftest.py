"""Self-validation corpus (thorough tier): filled in later."""


def run(pid, ctx, seed):
    return {}
