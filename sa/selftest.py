"""Self-validation corpus (thorough tier).

Built in memory from the *current* tree on every run: for the functions a property's obligations touched,
  * single-edit AST mutants (constant ±1, comparison flips, lower<->upper, any<->all, axis 0<->1, argument drop / swap,
    `.A` dropped, sign flips, True<->False, + <-> -) must turn at least one obligation of the property red, and
  * equivalence-preserving rewrites (formatting round trip, local renaming, keyword<->positional for repository calls,
    `-1*x` <-> `-x`, `a >= b` <-> `not a < b`, map/lambda <-> comprehension) must keep every obligation green.
Nothing is written under /repo or /verif. It measures the checker; it is not the decision on /repo.
"""
import ast
import copy
import multiprocessing
import os
import random

from .frontend import Program, AnalysisError
from .contracts import Contracts
from .obligation import Ob, Ctx, load_known

ROOT = os.path.dirname(os.path.dirname(os.path.abspath(__file__)))
MAX_MUTANTS = int(os.environ.get("VERIF_SELFTEST_MUTANTS", "160"))


# ------------------------------------------------------------------------------------------------ mutation operators
class Site:
    def __init__(self, kind, node_index, desc):
        self.kind, self.node_index, self.desc = kind, node_index, desc


def _nodes(fn):
    return list(ast.walk(fn))


def _is_docstring_const(fn, node, parents):
    p = parents.get(id(node))
    return isinstance(p, ast.Expr)


def mutation_sites(fn):
    """[(kind, index into ast.walk order, description)]"""
    sites = []
    parents = {}
    for n in ast.walk(fn):
        for c in ast.iter_child_nodes(n):
            parents[id(c)] = n
    for i, n in enumerate(_nodes(fn)):
        p = parents.get(id(n))
        if isinstance(n, ast.Constant):
            if isinstance(p, ast.Expr) or isinstance(p, (ast.JoinedStr, ast.FormattedValue)):
                continue                       # docstrings / message text
            if isinstance(p, ast.Call) and isinstance(p.func, ast.Name) and p.func.id in ("Exception", "ValueError"):
                continue
            if isinstance(p, ast.Call) and isinstance(p.func, ast.Attribute) and p.func.attr == "format":
                continue
            if isinstance(n.value, bool):
                sites.append(("bool", i, f"{n.value} -> {not n.value}"))
            elif isinstance(n.value, int):
                sites.append(("int+1", i, f"{n.value} -> {n.value + 1}"))
                sites.append(("int-1", i, f"{n.value} -> {n.value - 1}"))
        elif isinstance(n, ast.Compare) and len(n.ops) == 1:
            op = type(n.ops[0])
            flips = {ast.GtE: ast.Gt, ast.Gt: ast.GtE, ast.Lt: ast.LtE, ast.LtE: ast.Lt, ast.Eq: ast.NotEq, ast.NotEq: ast.Eq,
                     ast.Is: ast.IsNot, ast.IsNot: ast.Is, ast.In: ast.NotIn, ast.NotIn: ast.In}
            if op in flips:
                sites.append(("cmp", i, f"{op.__name__} -> {flips[op].__name__}"))
        elif isinstance(n, ast.Attribute):
            swaps = {"lower": "upper", "upper": "lower", "any": "all", "all": "any", "min": "max", "max": "min",
                     "atomic_propositions": "compound_propositions", "compound_propositions": "atomic_propositions",
                     "A_min": "A_max", "A_max": "A_min"}
            if n.attr in swaps and isinstance(n.ctx, ast.Load):
                sites.append(("attr", i, f".{n.attr} -> .{swaps[n.attr]}"))
            if n.attr == "A" and isinstance(n.ctx, ast.Load):
                sites.append(("dropA", i, "X.A -> X"))
            if n.attr == "T" and isinstance(n.ctx, ast.Load):
                sites.append(("dropT", i, "X.T -> X"))
        elif isinstance(n, ast.Call):
            if n.keywords:
                for k, kw in enumerate(n.keywords):
                    if kw.arg is not None:
                        sites.append((f"dropkw:{k}", i, f"drop keyword {kw.arg}="))
            if len(n.args) >= 2 and not any(isinstance(a, ast.Starred) for a in n.args[:2]):
                sites.append(("swapargs", i, "swap first two positional arguments"))
        elif isinstance(n, ast.UnaryOp) and isinstance(n.op, ast.USub):
            sites.append(("dropneg", i, "-x -> x"))
        elif isinstance(n, ast.UnaryOp) and isinstance(n.op, ast.Not):
            sites.append(("dropnot", i, "not x -> x"))
        elif isinstance(n, ast.BinOp) and isinstance(n.op, (ast.Add, ast.Sub)):
            sites.append(("addsub", i, "+ <-> -"))
        elif isinstance(n, ast.BinOp) and isinstance(n.op, ast.Mult) and isinstance(n.left, ast.Constant) and n.left.value == -1:
            sites.append(("dropm1", i, "-1*x -> x"))
        elif isinstance(n, ast.IfExp):
            sites.append(("ifswap", i, "a if c else b -> b if c else a"))
    return sites


PURITY_PROPS = {"C09"}


def purity_sites(fi):
    """effect-introducing edits (for the purity property the value mutants are irrelevant)"""
    a = fi.node.args
    params = [x.arg for x in a.posonlyargs + a.args]
    if fi.name in ("__init__", "__new__", "__array_finalize__") or not params or params[0] != "self" or fi.is_static:
        return []
    return [("pure:store", 0, "insert `self._memo = None`"), ("pure:lru", 0, "decorate with functools.lru_cache"),
            ("pure:dict", 0, "insert `self.__dict__.update(_seen=True)`")]


def apply_mutation(fn, kind, index):
    fn = copy.deepcopy(fn)
    if kind.startswith("pure:"):
        pos = 1 if fn.body and isinstance(fn.body[0], ast.Expr) and isinstance(fn.body[0].value, ast.Constant) else 0
        if kind == "pure:store":
            fn.body.insert(pos, ast.parse("self._memo = None").body[0])
        elif kind == "pure:dict":
            fn.body.insert(pos, ast.parse("self.__dict__.update(_seen=True)").body[0])
        else:
            fn.decorator_list.append(ast.parse("functools.lru_cache").body[0].value)
        return fn
    nodes = _nodes(fn)
    n = nodes[index]
    if kind == "bool":
        n.value = not n.value
    elif kind == "int+1":
        n.value = n.value + 1
    elif kind == "int-1":
        n.value = n.value - 1
    elif kind == "cmp":
        flips = {ast.GtE: ast.Gt, ast.Gt: ast.GtE, ast.Lt: ast.LtE, ast.LtE: ast.Lt, ast.Eq: ast.NotEq, ast.NotEq: ast.Eq,
                 ast.Is: ast.IsNot, ast.IsNot: ast.Is, ast.In: ast.NotIn, ast.NotIn: ast.In}
        n.ops = [flips[type(n.ops[0])]()]
    elif kind == "attr":
        swaps = {"lower": "upper", "upper": "lower", "any": "all", "all": "any", "min": "max", "max": "min",
                 "atomic_propositions": "compound_propositions", "compound_propositions": "atomic_propositions",
                 "A_min": "A_max", "A_max": "A_min"}
        n.attr = swaps[n.attr]
    elif kind in ("dropA", "dropT", "dropneg", "dropnot", "dropm1"):
        repl = n.value if kind in ("dropA", "dropT") else (n.operand if kind in ("dropneg", "dropnot") else n.right)
        _replace_child(fn, n, repl)
    elif kind.startswith("dropkw:"):
        del n.keywords[int(kind.split(":")[1])]
    elif kind == "swapargs":
        n.args[0], n.args[1] = n.args[1], n.args[0]
    elif kind == "addsub":
        n.op = ast.Sub() if isinstance(n.op, ast.Add) else ast.Add()
    elif kind == "ifswap":
        n.body, n.orelse = n.orelse, n.body
    return fn


def _replace_child(root, old, new):
    for p in ast.walk(root):
        for field, val in ast.iter_fields(p):
            if val is old:
                setattr(p, field, new)
                return
            if isinstance(val, list):
                for j, x in enumerate(val):
                    if x is old:
                        val[j] = new
                        return


# ------------------------------------------------------------------------------------------------ equivalence-preserving rewrites
class _RenameLocals(ast.NodeTransformer):
    def __init__(self, names):
        self.map = {n: f"{n}_rn" for n in names}

    def visit_Name(self, node):
        if node.id in self.map:
            return ast.copy_location(ast.Name(self.map[node.id], node.ctx), node)
        return node

    def visit_arg(self, node):
        return node


def rw_format(fn):
    return copy.deepcopy(fn)            # unparse round trip = reformatting, comments and docstring layout dropped


def rw_rename_locals(fn):
    fn = copy.deepcopy(fn)
    params = {a.arg for a in fn.args.posonlyargs + fn.args.args + fn.args.kwonlyargs}
    if fn.args.vararg:
        params.add(fn.args.vararg.arg)
    if fn.args.kwarg:
        params.add(fn.args.kwarg.arg)
    inner_params = set()
    for n in ast.walk(fn):
        if isinstance(n, ast.Lambda):
            inner_params |= {a.arg for a in n.args.args}
    stored = {n.id for n in ast.walk(fn) if isinstance(n, ast.Name) and isinstance(n.ctx, ast.Store)}
    names = stored - params - inner_params
    if not names:
        return None
    return _RenameLocals(names).visit(fn)


def rw_neg(fn):
    """-1*x  <->  -x"""
    fn = copy.deepcopy(fn)
    changed = [False]

    class Tr(ast.NodeTransformer):
        def visit_BinOp(self, node):
            self.generic_visit(node)
            if isinstance(node.op, ast.Mult) and isinstance(node.left, ast.Constant) and node.left.value == -1 and not isinstance(node.left.value, bool):
                changed[0] = True
                return ast.copy_location(ast.UnaryOp(ast.USub(), node.right), node)
            if isinstance(node.op, ast.Mult) and isinstance(node.right, ast.Constant) and node.right.value == -1 and not isinstance(node.right.value, bool):
                changed[0] = True
                return ast.copy_location(ast.UnaryOp(ast.USub(), node.left), node)
            return node
    fn = Tr().visit(fn)
    return fn if changed[0] else None


def rw_notcmp(fn):
    """a >= b  ->  not a < b   (first order comparison found, integers)"""
    fn = copy.deepcopy(fn)
    done = [False]
    inv = {ast.GtE: ast.Lt, ast.Gt: ast.LtE, ast.Lt: ast.GtE, ast.LtE: ast.Gt}

    class Tr(ast.NodeTransformer):
        def visit_Compare(self, node):
            self.generic_visit(node)
            if not done[0] and len(node.ops) == 1 and type(node.ops[0]) in inv:
                done[0] = True
                return ast.copy_location(ast.UnaryOp(ast.Not(), ast.Compare(node.left, [inv[type(node.ops[0])]()], node.comparators)), node)
            return node
    fn = Tr().visit(fn)
    return fn if done[0] else None


def rw_comprehension(fn):
    """list(map(lambda x: e, xs)) -> [e for x in xs]"""
    fn = copy.deepcopy(fn)
    done = [False]

    class Tr(ast.NodeTransformer):
        def visit_Call(self, node):
            self.generic_visit(node)
            if isinstance(node.func, ast.Name) and node.func.id == "list" and len(node.args) == 1 and not node.keywords:
                m = node.args[0]
                if isinstance(m, ast.Call) and isinstance(m.func, ast.Name) and m.func.id == "map" and len(m.args) == 2 \
                        and isinstance(m.args[0], ast.Lambda) and len(m.args[0].args.args) == 1 and not m.args[0].args.defaults:
                    lam = m.args[0]
                    done[0] = True
                    return ast.copy_location(ast.ListComp(lam.body, [ast.comprehension(ast.Name(lam.args.args[0].arg, ast.Store()), m.args[1], [], 0)]), node)
            return node
    fn = Tr().visit(fn)
    return fn if done[0] else None


def rw_attrgetter(fn):
    """operator.attrgetter("a") -> lambda q_: q_.a   (first occurrence with a constant dotted path)"""
    fn = copy.deepcopy(fn)
    done = [False]

    class Tr(ast.NodeTransformer):
        def visit_Call(self, node):
            self.generic_visit(node)
            if not done[0] and isinstance(node.func, ast.Attribute) and node.func.attr == "attrgetter" and isinstance(node.func.value, ast.Name) \
                    and node.func.value.id == "operator" and len(node.args) == 1 and isinstance(node.args[0], ast.Constant):
                body = ast.Name("q_", ast.Load())
                for part in node.args[0].value.split("."):
                    body = ast.Attribute(body, part, ast.Load())
                done[0] = True
                return ast.copy_location(ast.Lambda(ast.arguments(posonlyargs=[], args=[ast.arg("q_")], kwonlyargs=[], kw_defaults=[], defaults=[]), body), node)
            return node
    fn = Tr().visit(fn)
    return fn if done[0] else None


REWRITES = [("reformat", rw_format), ("rename-locals", rw_rename_locals), ("-1*x <-> -x", rw_neg), ("a>=b <-> not a<b", rw_notcmp),
            ("list(map(lambda)) -> comprehension", rw_comprehension), ("attrgetter -> lambda", rw_attrgetter)]


# ------------------------------------------------------------------------------------------------ splicing and evaluation
def splice(module, fn_node, new_fn):
    """source of `module` with function `fn_node` replaced by the unparsed `new_fn`"""
    lines = module.src.split("\n")
    start = min([fn_node.lineno] + [d.lineno for d in fn_node.decorator_list]) - 1
    end = fn_node.end_lineno
    indent = " " * fn_node.col_offset
    ast.fix_missing_locations(new_fn)
    text = ast.unparse(new_fn)
    new_lines = [(indent + l) if l.strip() else l for l in text.split("\n")]
    return "\n".join(lines[:start] + new_lines + lines[end:])


_CTX = {}


def _evaluate(job):
    pid, rel, src, label = job
    from . import props as PROPS
    try:
        program = Program(overrides={rel: src})
        ctx = Ctx(program, Contracts(program), "quick", 0)
        obs = PROPS.get(pid).obligations(ctx)
        from . import integrity
        obs = obs + integrity.obligations(ctx, pid)
        known = _CTX.get("known") or load_known(os.path.join(ROOT, "KNOWN_FINDINGS.txt"))
        red = [o for o in obs if o.status in ("violation", "inconclusive") and not (o.status == "violation" and (pid, o.key) in known)]
        viol = [o for o in red if o.status == "violation"]
        if viol:
            return label, "red", viol[0].id + ": violation"
        return label, ("red" if red else "green"), (red[0].id + ": " + red[0].status if red else "")
    except AnalysisError as e:
        return label, "red", "analysis-error: " + str(e)[:120]
    except SyntaxError as e:
        return label, "invalid", str(e)[:80]
    except Exception as e:          # a crash of the checker on a variant is a red flag, but not a verdict
        return label, "crash", repr(e)[:160]


# ------------------------------------------------------------------------------------------------ surroundings variants
_WRAP_SRC = (
    "\n\ndef _sv_memo(fn):\n"
    "    import functools\n"
    "    seen = {}\n"
    "    @functools.wraps(fn)\n"
    "    def wrapper(*args, **kwargs):\n"
    "        key = id(args[0]) if args else None\n"
    "        if key not in seen:\n"
    "            seen[key] = fn(*args, **kwargs)\n"
    "        return seen[key]\n"
    "    return wrapper\n\n"
)


def surroundings_variants(pid, ctx, limit=40):
    """Variants that leave every function body untouched: (a) a memoising decorator (keyed by the identity of the first
    argument only) on a function the property specifies; (b) an override of a specified method in a subclass that has none.
    Each must turn an obligation red, for every specified function - not only for the ones a stored seed happens to touch."""
    program = ctx.program
    K = ctx.contracts
    from . import props as PROPS
    spec = sorted({q for (q, v) in K.refs if pid in K.refs[(q, v)][2].get("props", [])} | set(getattr(PROPS.get(pid), "PROTECTED", [])))
    if pid in PURITY_PROPS:
        # purity is decided for every entry point, not for a list of contracts
        try:
            spec = sorted(set(spec) | set(PROPS.get(pid).entry_points(program)))
        except Exception:
            pass
    work = []
    for q in spec:
        fi = program.functions.get(q)
        if fi is None:
            continue
        lines = fi.module.src.split("\n")
        first = min([d.lineno for d in fi.node.decorator_list] + [fi.node.lineno])
        indent = " " * fi.node.col_offset
        # the decorator goes innermost (directly above `def`), after property / staticmethod / classmethod
        new = lines[:fi.node.lineno - 1] + [indent + "@_sv_memo"] + lines[fi.node.lineno - 1:]
        # helper definition after the module's imports / before the first class or function
        body = fi.module.tree.body
        anchor = next((b.lineno for b in body if isinstance(b, (ast.ClassDef, ast.FunctionDef))), 1)
        anchor = min([anchor] + [d.lineno for b in body if isinstance(b, (ast.ClassDef, ast.FunctionDef)) for d in b.decorator_list])
        src = "\n".join(new[:anchor - 1]) + _WRAP_SRC + "\n".join(new[anchor - 1:])
        work.append((pid, fi.module.relpath, src, f"S|{q}|decorate|memoising decorator keyed by id(first argument)"))
        if fi.cls is not None and not fi.name.startswith("__") and pid not in PURITY_PROPS:    # (an override that returns None is pure)
            subs = [c for c in program.subclasses(fi.cls, strict=True) if fi.name not in c.methods and c.module is fi.module]
            if subs:
                c = subs[0]
                last = max(getattr(n, "end_lineno", c.node.lineno) for n in c.node.body)
                ind = " " * (c.node.body[0].col_offset)
                dec = [ind + "@" + d for d in fi.decorators if d in ("property", "staticmethod", "classmethod")]
                params = ", ".join(fi.params) if fi.params else ""
                ov = dec + [ind + f"def {fi.name}({params + (', ' if params else '')}*args, **kwargs):", ind + "    return None", ""]
                new2 = lines[:last] + [""] + ov + lines[last:]
                work.append((pid, fi.module.relpath, "\n".join(new2), f"S|{q}|override|{c.name}.{fi.name} overrides it"))
    return work[:limit * 2]


def diagnostic_variants(pid, ctx):
    """A diagnostic inserted at the top of a function under contract, body otherwise untouched: (red) one whose argument can
    raise - `print(", ".join(sorted(x)))` - must be reported; (green) its total twin - `print("enter", x)` - must stay silent."""
    if pid in PURITY_PROPS:
        return [], []
    program, K = ctx.program, ctx.contracts
    red, green = [], []
    for q in sorted({q for (q, v) in K.refs if pid in K.refs[(q, v)][2].get("props", [])}):
        fi = program.functions.get(q)
        if fi is None or not fi.node.body:
            continue
        body = [b for b in fi.node.body if not (isinstance(b, ast.Expr) and isinstance(b.value, ast.Constant) and isinstance(b.value.value, str))]
        if not body or body[0].lineno == fi.node.lineno or not fi.params:
            continue
        arg = fi.params[1] if len(fi.params) > 1 and fi.cls is not None and "staticmethod" not in fi.decorators else fi.params[0]
        lines = fi.module.src.split("\n")
        ind = " " * body[0].col_offset
        at = min([body[0].lineno] + [d.lineno for d in getattr(body[0], "decorator_list", [])]) - 1
        mk = lambda stmt: "\n".join(lines[:at] + [ind + stmt] + lines[at:])
        red.append((pid, fi.module.relpath, mk(f'print(", ".join(sorted({arg})))'), f"S|{q}|diagnostic-partial|print of a join over sorted({arg}) can raise"))
        green.append((pid, fi.module.relpath, mk(f'print("enter", {arg})'), f"R|{q}|diagnostic-total|"))
    return red, green


# ------------------------------------------------------------------------------------------------ stored corpus
def apply_unified_diff(files, diff_text):
    """Apply a git unified diff to {relpath: source}; returns {relpath: new source} for the touched files (in memory)."""
    import re
    out = {}
    cur = None
    hunks = []
    for line in diff_text.split("\n"):
        if line.startswith("+++ "):
            path = line[4:].strip()
            cur = path[2:] if path.startswith("b/") else path
            out.setdefault(cur, [])
        elif line.startswith("@@") and cur is not None:
            m = re.match(r"@@ -(\d+)(?:,(\d+))? \+(\d+)(?:,(\d+))? @@", line)
            out[cur].append([int(m.group(1)), []])
        elif cur is not None and out[cur] and (line[:1] in (" ", "+", "-") or line == "") and not line.startswith("--- "):
            out[cur][-1][1].append(line)
    res = {}
    for path, hs in out.items():
        src = files[path].split("\n")
        new = []
        pos = 0
        for start, lines in hs:
            while lines and lines[-1] == "":
                lines.pop()          # trailing split artefact
            # like `git apply`: the hunk applies where its old side (context + removed lines) matches, nearest to the stated line
            want = [l[1:] for l in lines if (l[:1] or " ") in (" ", "-")]
            at = None
            for off in sorted(range(-400, 401), key=abs):
                k = start - 1 + off
                if k >= pos and k + len(want) <= len(src) and src[k:k + len(want)] == want:
                    at = k
                    break
            if at is None:
                raise ValueError(f"context mismatch in {path} near line {start}")
            new.extend(src[pos:at])
            pos = at
            for l in lines:
                tag, body = (l[:1] or " "), l[1:]
                if tag == " ":
                    if src[pos] != body:
                        raise ValueError(f"context mismatch in {path} at line {pos + 1}")
                    new.append(src[pos]); pos += 1
                elif tag == "-":
                    if src[pos] != body:
                        raise ValueError(f"removal mismatch in {path} at line {pos + 1}")
                    pos += 1
                elif tag == "+":
                    new.append(body)
        new.extend(src[pos:])
        res[path] = "\n".join(new)
    return res


def _evaluate_variant(job):
    pid, overrides, label = job
    from . import props as PROPS
    from . import integrity
    try:
        program = Program(overrides=overrides)
        ctx = Ctx(program, Contracts(program), "quick", 0)
        obs = PROPS.get(pid).obligations(ctx)
        obs = obs + integrity.obligations(ctx, pid)
        known = load_known(os.path.join(ROOT, "KNOWN_FINDINGS.txt"))
        viol = [o for o in obs if o.status == "violation" and (pid, o.key) not in known]
        inc = [o for o in obs if o.status == "inconclusive"]
        return label, ("violation" if viol else ("inconclusive" if inc else "green")), (viol[0].id if viol else (inc[0].id if inc else ""))
    except AnalysisError as e:
        return label, "inconclusive", "analysis-error: " + str(e)[:100]
    except Exception as e:
        return label, "crash", repr(e)[:160]


def corpus(pid, ctx):
    """Confirmed seeded defects that target this property must be reported as VIOLATION; stored behaviour-preserving refactorings
    must leave it green. Variants are built in memory from the current tree (skipped when a patch no longer applies)."""
    import glob
    import json
    files = {m.relpath: m.src for m in ctx.program.modules.values()}
    jobs = []
    skipped = []
    for d in sorted(glob.glob(os.path.join(ROOT, "seeded", "*", "meta.json"))):
        meta = json.load(open(d))
        if meta.get("breaks_property") != pid:
            continue
        try:
            ov = apply_unified_diff(files, open(os.path.join(os.path.dirname(d), "patch.diff")).read())
        except Exception as e:
            skipped.append(meta["id"] + ": " + str(e)[:60])
            continue
        jobs.append((pid, ov, "S|" + meta["id"]))
    expected_alarm = set()
    mpath = os.path.join(ROOT, "seeded", "refactorings", "MATRIX.json")
    if os.path.exists(mpath):
        expected_alarm = {r["refactoring"] for r in json.load(open(mpath)) if not r["silent"]}
    for f in sorted(glob.glob(os.path.join(ROOT, "seeded", "refactorings", "*.diff"))):
        try:
            ov = apply_unified_diff(files, open(f).read())
        except Exception as e:
            skipped.append(os.path.basename(f) + ": " + str(e)[:60])
            continue
        jobs.append((pid, ov, "R|" + os.path.basename(f)))
    if not jobs:
        return {"obligations": [], "corpus": {"seeds": 0, "refactorings": 0, "skipped": skipped}}
    with multiprocessing.get_context("fork").Pool(min(16, os.cpu_count() or 4)) as pool:
        results = pool.map(_evaluate_variant, jobs, chunksize=1)
    seeds = [r for r in results if r[0].startswith("S|")]
    refs = [r for r in results if r[0].startswith("R|")]
    missed = [r for r in seeds if r[1] != "violation"]
    noisy = [r for r in refs if r[1] != "green" and r[0][2:] not in expected_alarm]
    obs = [Ob("selftest.seeds", "selftest", f"{len(seeds)} confirmed seeded defects targeting {pid}", "ok" if not missed else "inconclusive",
              f"{len(seeds) - len(missed)}/{len(seeds)} reported as VIOLATION" + (f"; missed: {[r[0] + ' ' + r[1] for r in missed]}" if missed else "")),
           Ob("selftest.refactorings", "selftest", f"{len(refs)} stored behaviour-preserving refactorings", "ok" if not noisy else "inconclusive",
              f"{len([r for r in refs if r[1] == 'green'])}/{len(refs)} leave {pid} green"
              + (f" (documented residual alarms: {sorted(expected_alarm)})" if expected_alarm else "")
              + (f"; NEW alarms: {[r[0] + ' ' + r[1] + ' ' + r[2] for r in noisy]}" if noisy else ""))]
    return {"obligations": obs, "corpus": {"seeds": [f"{r[0]} => {r[1]} {r[2]}" for r in seeds],
                                            "refactorings_green": len([r for r in refs if r[1] == 'green']), "refactorings": len(refs),
                                            "skipped": skipped}}


def run(pid, ctx, seed):
    program = ctx.program
    rng = random.Random(seed * 7919 + sum(map(ord, pid)))
    funcs = sorted(q for q in ctx.touched if q in program.functions)
    jobs_mut, jobs_rw = [], []
    for q in funcs:
        fi = program.functions[q]
        sites = purity_sites(fi) if pid in PURITY_PROPS else mutation_sites(fi.node)
        if pid == "C18" and q.endswith(".add"):
            sites = sites + purity_sites(fi)
        for kind, idx, desc in sites:
            jobs_mut.append((q, kind, idx, desc))
        for name, rw in REWRITES:
            jobs_rw.append((q, name, rw))
    rng.shuffle(jobs_mut)
    total_sites = len(jobs_mut)
    jobs_mut = jobs_mut[:MAX_MUTANTS]
    work = []
    for q, kind, idx, desc in jobs_mut:
        fi = program.functions[q]
        try:
            src = splice(fi.module, fi.node, apply_mutation(fi.node, kind, idx))
        except Exception:
            continue
        work.append((pid, fi.module.relpath, src, f"M|{q}|{kind}@{idx}|{desc}"))
    rwn = 0
    for q, name, rw in jobs_rw:
        fi = program.functions[q]
        try:
            new = rw(fi.node)
        except Exception:
            new = None
        if new is None:
            continue
        rwn += 1
        work.append((pid, fi.module.relpath, splice(fi.module, fi.node, new), f"R|{q}|{name}|"))
    try:
        sv_work = surroundings_variants(pid, ctx)
    except Exception as e:                      # never let the generator of variants decide a verdict
        sv_work = []
    rng.shuffle(sv_work)
    sv_work = sv_work[:60]
    try:
        d_red, d_green = diagnostic_variants(pid, ctx)
    except Exception:
        d_red, d_green = [], []
    pick = list(range(len(d_red)))
    rng.shuffle(pick)
    pick = pick[:12]
    work = work + sv_work + [d_red[i] for i in pick] + [d_green[i] for i in pick]
    nproc = min(16, os.cpu_count() or 4)
    with multiprocessing.get_context("fork").Pool(nproc) as pool:
        results = pool.map(_evaluate, work, chunksize=4)
    sur = [r for r in results if r[0].startswith("S|")]
    sur_valid = [r for r in sur if r[1] != "invalid"]
    sur_green = [r for r in sur_valid if r[1] == "green"]
    mut = [r for r in results if r[0].startswith("M|")]
    rws = [r for r in results if r[0].startswith("R|")]
    killed = [r for r in mut if r[1] == "red"]
    survived = [r for r in mut if r[1] == "green"]
    crashed = [r for r in results if r[1] == "crash"]
    invalid = [r for r in mut if r[1] == "invalid"]
    rw_red = [r for r in rws if r[1] != "green"]
    obs = []
    where = f"{len(funcs)} functions of {pid}"
    valid = len(mut) - len(invalid)
    rate = (len(killed) / valid) if valid else 1.0
    # (a crash of the checker on a sampled variant means that variant would end as ANALYSIS-ERROR (exit 2), never as a silent
    #  pass; it is recorded in the evidence but does not decide the unchanged tree)
    obs.append(Ob("selftest.mutants", "selftest", where, "ok" if rate >= 0.5 else "inconclusive",
                  f"{len(killed)}/{valid} single-edit mutants of the analysed functions turn an obligation red "
                  f"({total_sites} mutation sites, {len(mut)} sampled with seed {seed}); survivors are listed in the evidence"
                  + (f"; checker crashed on {len(crashed)} variants" if crashed else "")))
    obs.append(Ob("selftest.rewrites", "selftest", where, "ok" if not rw_red else "inconclusive",
                  f"{len(rws) - len(rw_red)}/{len(rws)} equivalence-preserving rewrites keep every obligation green"
                  + (f"; NOT silent on: {[r[0] for r in rw_red][:5]}" if rw_red else "")))
    obs.append(Ob("selftest.surroundings", "selftest", where, "ok" if not sur_green else "inconclusive",
                  f"{len(sur_valid) - len(sur_green)}/{len(sur_valid)} variants that leave all bodies untouched (memoising decorator on a specified "
                  f"function, override in a subclass, a diagnostic whose argument can raise) turn an obligation red"
                  + (f"; NOT reported: {[r[0] for r in sur_green][:5]}" if sur_green else "")))
    cor = corpus(pid, ctx)
    obs = obs + cor.pop("obligations", [])
    return {
        "obligations": obs,
        "corpus": cor.get("corpus", {}),
        "selftest": {
            "seed": seed, "functions": funcs, "mutation_sites": total_sites, "mutants_run": len(mut), "mutants_invalid": len(invalid),
            "mutants_killed": len(killed), "kill_rate": round(rate, 3),
            "killed_by_violation": len([r for r in killed if r[2].endswith(": violation")]),
            "killed_only_by_analysis_error": len([r for r in killed if not r[2].endswith(": violation")]),
            "survivors": [r[0] for r in survived][:60],
            "rewrites_run": len(rws), "rewrites_silent": len(rws) - len(rw_red), "rewrites_not_silent": [f"{r[0]} -> {r[2]}" for r in rw_red][:20],
            "crashes": [f"{r[0]} -> {r[2]}" for r in crashed][:10],
            "surroundings_run": len(sur_valid), "surroundings_red": len(sur_valid) - len(sur_green),
            "surroundings_not_reported": [r[0] for r in sur_green][:20], "surroundings_invalid": len(sur) - len(sur_valid),
            "samples": [f"{r[0]} => {r[1]} {r[2]}" for r in mut[:12]],
        },
    }
